"""Seeded generators of full-stack (L2) scripts: buffering (C13), periodic reporting (C15), kernel reports (C10)."""
import random

from gen_l1 import ev, op


def x(e, **kw):
    d = {"pdr": 0, "action": 0, "n": 0, "base": 0, "period": 0, "kreps": [], "exp": []}
    d.update(kw)
    e.update(d)
    return e


def kbuf(sref, pdr, action, n, base, seid=""):
    return x(ev("kbuf", sref=sref, seid=seid), pdr=pdr, action=action, n=n, base=base)


def tick(period):
    return x(ev("tick"), period=period)


def krep(items):
    return x(ev("krep"), kreps=[{"sref": s, "seid": sd, "urr": u, "trig": t, "tok": 0, "vals": {k: "" for k in ("tv", "uv", "dv", "tp", "up", "dp", "st", "et", "du")}}
                                for (s, sd, u, t) in items])


class G2:
    def __init__(self, rng):
        self.r = rng
        self.seq = 0
        self.events = [x(ev("init", maxrt=1))]
        self.nsess = 0
        self.alive = {}      # ordinal -> dict
        self.base = 0

    def nseq(self):
        self.seq += 1
        return self.seq

    def add(self, e):
        self.events.append(x(e) if "pdr" not in e else e)

    def assoc(self, node="n1"):
        self.add(ev("assoc", peer="p" + node[1:], seq=self.nseq(), node=node))

    def est(self, node="n1", nfar=1, npdr=2, qfi=None, urrs=()):
        r = self.r
        ops = []
        fars = list(range(1, nfar + 1))
        for f in fars:
            ops.append(op("create", "far", f, aa=r.choice([4, 12, 12, 2]), teid=r.randrange(1, 2 ** 31), gnb=r.randint(1, 3)))
        q = qfi if qfi is not None else r.choice([0, 1, 9, 63])
        ops.append(op("create", "qer", 1, qfi=q))
        ops.append(op("create", "qer", 2, qfi=r.choice([0, 5])))
        for (u, period) in urrs:
            ops.append(op("create", "urr", u, meth=2, perio=period > 0, period=period))
        pdrs = {}
        for p in range(1, npdr + 1):
            f = r.choice(fars)
            qs = r.choice([[1], [2, 1], [], [1, 2]])
            pdrs[p] = f
            ops.append(op("create", "pdr", p, far=f, qers=qs, urrs=[u for (u, _) in urrs][:1]))
        self.add(ev("est", peer="p" + node[1:], seq=self.nseq(), node=node, cp=str(100 + self.nsess), ops=ops))
        self.nsess += 1
        self.alive[self.nsess] = {"node": node, "fars": fars, "pdrs": pdrs, "urrs": dict(urrs)}
        return self.nsess

    def buf(self, s, pdr=None, n=None, action=None):
        r = self.r
        pdr = pdr or r.randint(1, 3)
        n = n or r.choice([1, 2, 3, 7, 40, 300, 520, 600])
        action = action if action is not None else r.choice([4, 12, 12, 4, 8, 2])
        if r.random() < 0.25:
            # further Apply Action flags next to BUFF / NOCP (DUPL, BDPN, DDPN, ...): buffering and notification follow BUFF / NOCP only
            action |= r.choice([0x10, 0x200, 0x400, 0x1800, 0x20])
        self.events.append(kbuf(s, pdr, action, n, self.base))
        self.base += n

    def aa(self, s, far, aa, newtunnel=False):
        kw = {"aa": aa}
        if newtunnel:
            kw.update(teid=self.r.randrange(1, 2 ** 31), gnb=self.r.randint(1, 3))
        self.add(ev("mod", peer="p" + self.alive[s]["node"][1:] if s in self.alive else "p1", seq=self.nseq(), sref=s, ops=[op("update", "far", far, **kw)]))

    def delete(self, s):
        self.add(ev("del", peer="p1", seq=self.nseq(), sref=s))
        self.alive.pop(s, None)

    def script(self, sid):
        return {"id": sid, "events": self.events}


def buffering(seed, n, length=14):
    """C13: bursts around the capacity, apply-action transitions, session end, SEID re-use"""
    out = []
    for i in range(n):
        rng = random.Random(seed * 7919 + i)
        g = G2(rng)
        g.assoc("n1")
        if rng.random() < 0.4:
            g.assoc("n2")
        if i % 5 == 4:
            # several sessions with equal rule ids but different QoS flows, all buffering, released one after the other:
            # what is re-injected for one session must not depend on what was re-injected for another before
            qs = rng.sample([1, 5, 9, 33, 63], 3)
            ss = [g.est(node=rng.choice(["n1", "n2"]) if len(g.events) > 2 and any(e.get("node") == "n2" for e in g.events) else "n1",
                        nfar=1, npdr=rng.choice([1, 2]), qfi=q) for q in qs]
            for s in ss:
                g.aa(s, 1, 12)
            for _ in range(rng.randint(3, 8)):
                g.buf(rng.choice(ss), pdr=rng.randint(1, 2), n=rng.choice([1, 2, 3, 7]), action=rng.choice([4, 12]))
            rng.shuffle(ss)
            for s in ss:
                g.aa(s, 1, 2, newtunnel=rng.random() < 0.3)
            out.append(g.script("buf-%d-%d" % (seed, i)))
            continue
        s1 = g.est(nfar=rng.choice([1, 2]), npdr=rng.choice([1, 2, 3]))
        for _ in range(length):
            c = rng.random()
            live = sorted(g.alive)
            if not live or c < 0.08:
                g.est(node=rng.choice(["n1", "n2"]) if "n2" in [e.get("node") for e in g.events] else "n1", nfar=rng.choice([1, 2]), npdr=rng.choice([1, 2, 3]))
                continue
            s = rng.choice(live)
            if c < 0.50:
                g.buf(s)
            elif c < 0.80:
                g.aa(s, rng.choice(g.alive[s]["fars"]), rng.choice([2, 2, 1, 4, 12]), newtunnel=rng.random() < 0.2)
            elif c < 0.86:
                g.delete(s)
            elif c < 0.92:
                # a notification for a session that is gone / never existed
                g.events.append(kbuf(0, 1, 12, 2, g.base, seid=str(rng.choice([9, 77, 2 ** 40]))))
                g.base += 2
            elif c < 0.96:
                g.add(ev("mod", peer="p1", seq=g.nseq(), sref=s, ops=[op("remove", "pdr", rng.randint(1, 3))]))
            else:
                g.add(ev("hb", peer="p1", seq=g.nseq()))
        # epilogue: release everything that is still buffered (damage to a bystander shows here)
        for s in sorted(g.alive):
            for f in g.alive[s]["fars"]:
                g.aa(s, f, 2)
        out.append(g.script("buf-%d-%d" % (seed, i)))
    return out


def bulk_periodic(g, rng, sid):
    P, Q = 10, 20
    nsess = rng.randint(19, 40)
    for k in range(nsess):
        urrs = [(u, P if rng.random() < 0.8 else Q) for u in range(1, rng.randint(2, 4) + 1)]
        g.est(node=rng.choice(["n1", "n2"]), urrs=tuple(urrs))
    g.events.append(tick(P))
    live = sorted(g.alive)
    for s in rng.sample(live, min(len(live), rng.randint(3, 12))):
        c = rng.random()
        if c < 0.5:
            u = rng.choice(sorted(g.alive[s]["urrs"]) or [1])
            g.add(ev("mod", peer="p1", seq=g.nseq(), sref=s, ops=[op("remove", "urr", u)]))
            g.alive[s]["urrs"].pop(u, None)
        else:
            g.delete(s)
    g.events.append(tick(P))
    g.events.append(tick(Q))
    if rng.random() < 0.5:
        g.assoc(rng.choice(["n1", "n2"]))
        g.alive = {k: v for k, v in g.alive.items() if v["node"] != g.events[-1]["node"]}
        g.events.append(tick(P))
    return g.script(sid)


def periodic(seed, n, length=16):
    """C15 / C10 at the full stack: periodic registrations over sessions and periods, ticks, kernel reports"""
    out = []
    for i in range(n):
        rng = random.Random(seed * 104729 + i)
        g = G2(rng)
        g.assoc("n1")
        g.assoc("n2")
        periods = [10, 20, 30]
        if i % 6 == 5:
            # more registered URRs than one multi-report query can carry (the kernel answers at most 56 per request): the
            # tick has to be split into batches, every URR still queried once and each session served once
            out.append(bulk_periodic(g, rng, "per-%d-%d" % (seed, i)))
            continue
        for _ in range(length):
            c = rng.random()
            live = sorted(g.alive)
            if not live or c < 0.2:
                urrs = [(u, rng.choice(periods + [0])) for u in range(1, rng.randint(1, 4))]
                g.est(node=rng.choice(["n1", "n2"]), urrs=tuple(urrs))
            elif c < 0.45:
                g.events.append(tick(rng.choice(periods + [40])))
            elif c < 0.60:
                s = rng.choice(live)
                u = rng.randint(1, 4)
                if rng.random() < 0.5:
                    g.add(ev("mod", peer="p1", seq=g.nseq(), sref=s, ops=[op("remove", "urr", u)]))
                    g.alive[s]["urrs"].pop(u, None)
                elif (4 + u) not in g.alive[s]["urrs"]:
                    # each URR is registered at most once at a time (the quantifier of C15)
                    p = rng.choice(periods)
                    g.alive[s]["urrs"][4 + u] = p
                    g.add(ev("mod", peer="p1", seq=g.nseq(), sref=s, ops=[op("create", "urr", 4 + u, meth=2, perio=True, period=p)]))
            elif c < 0.75:
                items = []
                for _ in range(rng.randint(1, 4)):
                    s = rng.choice(live + [0])
                    items.append((s, "" if s else str(rng.choice([99, 2 ** 33])), rng.randint(1, 4), rng.choice([1 << b for b in range(18)])))
                g.events.append(krep(items))
            elif c < 0.85:
                g.delete(rng.choice(live))
            else:
                g.assoc(rng.choice(["n1", "n2"]))
                g.alive = {k: v for k, v in g.alive.items() if v["node"] != g.events[-1]["node"]}
        # a further URR joins a period that has already ticked for its session, then the period ticks again
        for s in sorted(g.alive)[:2]:
            ps = sorted({p for p in g.alive[s]["urrs"].values() if p > 0})
            if ps and 9 not in g.alive[s]["urrs"]:
                g.events.append(tick(ps[0]))
                g.alive[s]["urrs"][9] = ps[0]
                g.add(ev("mod", peer="p1", seq=g.nseq(), sref=s, ops=[op("create", "urr", 9, meth=2, perio=True, period=ps[0])]))
                g.events.append(tick(ps[0]))
        for p in periods:
            g.events.append(tick(p))
        out.append(g.script("per-%d-%d" % (seed, i)))
    return out
