"""Shared machinery of /verif/check: scratch handling, harness builds (overlay), L1 executor runs,
TLC runs (model checking and trace validation), evidence files, known findings."""
import atexit
import json
import os
import re
import shutil
import subprocess
import sys
import tempfile
import time

VERIF = os.path.dirname(os.path.dirname(os.path.abspath(__file__)))
REPO = os.environ.get("VERIF_REPO", "/repo")
SPEC = os.path.join(VERIF, "spec")
HARNESS = os.path.join(VERIF, "harness")
NCPU = os.cpu_count() or 4

GOENV = dict(os.environ, GOFLAGS="-mod=mod", GOPROXY="off", GOSUMDB="off", GOTOOLCHAIN="local", CGO_ENABLED=os.environ.get("CGO_ENABLED", "1"))

_scratch = None


class Infra(Exception):
    """infrastructure failure: exit 2, never a violation"""


_scratch_lock = __import__("threading").Lock()


def scratch():
    global _scratch
    with _scratch_lock:       # worker threads ask for it at the same time: exactly one directory, removed at exit
        if _scratch is None:
            _scratch = tempfile.mkdtemp(prefix="verif-")
            atexit.register(lambda: shutil.rmtree(_scratch, ignore_errors=True))
    return _scratch


def sub(name):
    d = os.path.join(scratch(), name)
    os.makedirs(d, exist_ok=True)
    return d


def tier():
    return os.environ.get("VERIF_TIER", "quick")


def seed():
    try:
        return int(os.environ.get("VERIF_SEED", "1"))
    except ValueError:
        return 1


def log(*a):
    print(*a, flush=True)


# ------------------------------------------------------------------------------------------ harness build

OVERLAYS = {
    # package dir (relative to the repository) -> list of harness files added to it
    "internal/pfcp": ["pfcp/zz_verif_l1_test.go", "pfcp/zz_verif_l2_test.go", "pfcp/zz_verif_stress_test.go"],
    "internal/gtpv1": ["gtpv1/zz_verif_gtpu_test.go"],
    "internal/report": ["report/zz_verif_flags_test.go"],
    "internal/forwarder": ["forwarder/zz_verif_fwd_test.go", "forwarder/zz_verif_rules_test.go", "forwarder/zz_verif_export.go"],
    "pkg/factory": ["factory/zz_verif_cfg_test.go"],
}


# harness files that are added to OTHER packages whenever a test binary is built (exports and the
# simulated kernel, all under build tag verif)
COMMON_OVERLAY = {
    "internal/forwarder/zz_verif_export.go": "forwarder/zz_verif_export.go",
    "internal/forwarder/buffnetlink/zz_verif_export.go": "buffnetlink/zz_verif_export.go",
    "internal/forwarder/perio/zz_verif_export.go": "perio/zz_verif_export.go",
    "internal/zzverif/simk/simk.go": "simk/simk.go",
    "internal/zzverif/simk/unsafe.go": "simk/unsafe.go",
}


def build_test_binary(pkg, race=False, extra_files=None):
    """go test -c for a repository package with the harness files ADDED by overlay (nothing is replaced)."""
    files = list(OVERLAYS.get(pkg, [])) + list(extra_files or [])
    rep = {}
    for dst, src in COMMON_OVERLAY.items():
        rep[os.path.join(REPO, dst)] = os.path.join(HARNESS, src)
    for f in files:
        dst = os.path.join(REPO, pkg, os.path.basename(f))
        rep[dst] = os.path.join(HARNESS, f)
    for dst in rep:
        if os.path.exists(dst):
            raise Infra("overlay would replace a repository file: %s" % dst)
    d = sub("build")
    ov = os.path.join(d, "overlay-%s.json" % pkg.replace("/", "_"))
    with open(ov, "w") as fh:
        json.dump({"Replace": rep}, fh)
    out = os.path.join(d, pkg.replace("/", "_") + (".race" if race else "") + ".test")
    cmd = ["go", "test", "-c", "-vet=off", "-tags", "verif", "-overlay", ov, "-o", out]
    if race:
        cmd.append("-race")
    cmd.append("./" + pkg + "/")
    t0 = time.time()
    p = subprocess.run(cmd, cwd=REPO, env=GOENV, stdout=subprocess.PIPE, stderr=subprocess.STDOUT, text=True)
    if p.returncode != 0 or not os.path.exists(out):
        raise Infra("harness build failed for %s:\n%s" % (pkg, p.stdout[-4000:]))
    log("built %s in %.1fs" % (os.path.basename(out), time.time() - t0))
    return out


# ------------------------------------------------------------------------------------------ L1 executor

def run_l1(binary, scripts, k, name, timeout=1200, test="TestVerifL1"):
    """Run the L1 (or L2) executor (child process) on the scripts; returns (trace_path, info)."""
    d = sub("l1")
    fin = os.path.join(d, name + ".in.ndjson")
    fout = os.path.join(d, name + ".out.ndjson")
    with open(fin, "w") as fh:
        for s in scripts:
            fh.write(json.dumps(s, separators=(",", ":")) + "\n")
    env = dict(os.environ, VERIF_IN=fin, VERIF_OUT=fout, VERIF_K=str(k))
    t0 = time.time()
    try:
        p = subprocess.run([binary, "-test.run", "^%s$" % test, "-test.timeout", "%ds" % timeout], cwd=d, env=env,
                           stdout=subprocess.PIPE, stderr=subprocess.STDOUT, text=True, timeout=timeout + 30)
        rc, outtxt = p.returncode, p.stdout
    except subprocess.TimeoutExpired as ex:
        rc, outtxt = -9, (ex.stdout or b"").decode("utf8", "replace") if isinstance(ex.stdout, bytes) else (ex.stdout or "")
    info = {"rc": rc, "wall": time.time() - t0, "tail": outtxt[-3000:], "in": fin, "out": fout}
    return fout, info


def run_l0(binary, testname, inputs, name, timeout=1200, env_extra=None):
    """Run a function-level executor (child process) on ND-JSON inputs; returns (out_path, info)."""
    d = sub("l0")
    fin = os.path.join(d, name + ".in.ndjson")
    fout = os.path.join(d, name + ".out.ndjson")
    with open(fin, "w") as fh:
        for s in inputs:
            fh.write(json.dumps(s, separators=(",", ":")) + "\n")
    env = dict(os.environ, VERIF_IN=fin, VERIF_OUT=fout)
    env.update(env_extra or {})
    t0 = time.time()
    p = subprocess.run([binary, "-test.run", "^%s$" % testname, "-test.timeout", "%ds" % timeout], cwd=d, env=env,
                       stdout=subprocess.PIPE, stderr=subprocess.STDOUT, text=True, timeout=timeout + 30)
    return fout, {"rc": p.returncode, "wall": time.time() - t0, "tail": p.stdout[-3000:]}


def tlc_vectors(tla, cfg, modules, name, tag="VEC", timeout=1800, workers=None, cfg_text=None):
    """Run TLC on a configuration whose states are printed as <<tag, json>>; returns (vectors, stats)."""
    d = stage_spec(list(modules) + [tla] + ([cfg] if cfg_text is None else []), "vec-" + name)
    if cfg_text is not None:
        with open(os.path.join(d, cfg), "w") as fh:
            fh.write(cfg_text)
    cmd = ["tlc", "-workers", str(workers or NCPU), "-metadir", os.path.join(d, "md"), "-config", cfg, tla]
    rx = re.compile(r'^<<"%s", "(.*)">>$' % tag)
    vecs, tail = [], []
    t0 = time.time()
    p = subprocess.Popen(cmd, cwd=d, env=_tlc_env(), stdout=subprocess.PIPE, stderr=subprocess.STDOUT, text=True)
    for ln in p.stdout:
        ln = ln.rstrip("\n")
        m = rx.match(ln)
        if m:
            try:
                vecs.append(json.loads(json.loads('"' + m.group(1) + '"')))
            except ValueError:
                pass
            continue
        tail.append(ln)
        tail = tail[-300:]
        if time.time() - t0 > timeout:
            p.kill()
            raise Infra("TLC timed out on %s" % tla)
    p.wait()
    out = "\n".join(tail)
    m = re.search(r"(\d+) states generated, (\d+) distinct states found", out)
    if p.returncode != 0 or "No error has been found" not in out or not m:
        raise Infra("TLC failed on %s (the reference itself violates its invariants?):\n%s" % (tla, out[-3000:]))
    return vecs, {"generated": int(m.group(1)), "distinct": int(m.group(2)), "wall": time.time() - t0}


def run_l1_parallel(binary, scripts, kbase, name, workers=None):
    """Split the scripts over several executor processes (each on its own 127.<k>.0.0/24)."""
    import concurrent.futures as cf
    workers = workers or min(8, NCPU)
    chunks = [scripts[i::workers] for i in range(workers)]
    chunks = [c for c in chunks if c]
    res = []
    with cf.ThreadPoolExecutor(len(chunks) or 1) as ex:
        futs = [ex.submit(run_l1, binary, c, kbase + i, "%s-%d" % (name, i)) for i, c in enumerate(chunks)]
        for f in futs:
            res.append(f.result())
    return res


def read_ndjson(path):
    out = []
    if not os.path.exists(path):
        return out
    with open(path) as fh:
        for ln in fh:
            ln = ln.strip()
            if not ln:
                continue
            try:
                out.append(json.loads(ln))
            except ValueError:
                break  # truncated last line of a crashed child
    return out


# ------------------------------------------------------------------------------------------ TLC

def _tlc_env(extra=None, heap="3g"):
    env = dict(os.environ)
    # bound every JVM: many TLC processes run side by side (default heap would be 25 % of RAM each)
    # TLC leaves an empty tlc-<n> directory in java.io.tmpdir per run: keep the litter inside the scratch directory
    env["JAVA_TOOL_OPTIONS"] = "-Xmx" + heap + " -Djava.io.tmpdir=" + sub("jtmp")
    if extra:
        env.update(extra)
    return env


def stage_spec(names, dirname):
    d = sub(dirname)
    for n in names:
        shutil.copy(os.path.join(SPEC, n), d)
    return d


def tlc_trace(trace_path, name, spec="Trace_Upf", modules=("Mon.tla",), timeout=1800):
    """Validate a recorded trace file with TLC; returns the verdict document."""
    d = stage_spec(list(modules) + [spec + ".tla", spec + ".cfg"], "tv-" + name)
    verdict = os.path.join(d, "verdict.json")
    env = _tlc_env({"VERIF_TRACE": trace_path, "VERIF_VERDICT": verdict})
    t0 = time.time()
    try:
        p = subprocess.run(["tlc", "-workers", "1", "-metadir", os.path.join(d, "md"), spec + ".tla"], cwd=d, env=env,
                           stdout=subprocess.PIPE, stderr=subprocess.STDOUT, text=True, timeout=timeout)
    except subprocess.TimeoutExpired:
        raise Infra("TLC trace validation timed out on %s" % trace_path)
    out = p.stdout
    if p.returncode != 0 or not os.path.exists(verdict) or "No error has been found" not in out:
        raise Infra("TLC trace validation failed (rc=%d) on %s:\n%s" % (p.returncode, trace_path, out[-3000:]))
    with open(verdict) as fh:
        doc = json.load(fh)
    doc["wall"] = time.time() - t0
    return doc


def tlc_mc(tla, cfg, name, modules, workers=None, timeout=3600, extra_args=(), coverage=False, env_extra=None):
    """Exhaustive TLC run; returns dict(states, distinct, ok, out)."""
    d = stage_spec(list(modules) + [tla, cfg], "mc-" + name)
    cmd = ["tlc", "-workers", str(workers or NCPU), "-metadir", os.path.join(d, "md"), "-config", cfg]
    if coverage:
        cmd += ["-coverage", "1"]
    cmd += list(extra_args) + [tla]
    t0 = time.time()
    try:
        p = subprocess.run(cmd, cwd=d, env=_tlc_env(env_extra), stdout=subprocess.PIPE, stderr=subprocess.STDOUT, text=True, timeout=timeout)
    except subprocess.TimeoutExpired:
        raise Infra("TLC timed out on %s" % tla)
    out = p.stdout
    m = re.search(r"(\d+) states generated, (\d+) distinct states found", out)
    res = {"rc": p.returncode, "out": out, "wall": time.time() - t0, "dir": d,
           "generated": int(m.group(1)) if m else 0, "distinct": int(m.group(2)) if m else 0,
           "ok": p.returncode == 0 and "No error has been found" in out}
    return res


# ------------------------------------------------------------------------------------------ evidence / findings

def write_evidence(pid, level, coverage, wall, violations, assumptions):
    os.makedirs(os.path.join(VERIF, "evidence"), exist_ok=True)
    doc = {"property_id": pid, "tier": tier(), "seed": seed(), "level": level, "coverage": coverage,
           "assumptions": assumptions, "wall_s": round(wall, 2), "violations": violations}
    tmp = os.path.join(VERIF, "evidence", pid + ".json.tmp")
    with open(tmp, "w") as fh:
        json.dump(doc, fh, indent=1)
    os.replace(tmp, os.path.join(VERIF, "evidence", pid + ".json"))


def load_known():
    p = os.path.join(VERIF, "known_findings.json")
    if not os.path.exists(p):
        return []
    with open(p) as fh:
        return json.load(fh).get("findings", [])


def save_replay(pid, name, doc):
    d = os.path.join(VERIF, "replays")
    os.makedirs(d, exist_ok=True)
    p = os.path.join(d, "%s-%s.json" % (pid, name))
    with open(p, "w") as fh:
        json.dump(doc, fh, indent=1)
    return p
