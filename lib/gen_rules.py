"""Concretisation of the abstract rule structures TLC enumerates (spec/MC_Rules.tla) into IE trees
with boundary / random octet values and permuted children, as vectors for the rules executor."""
import random

import checks  # for fd_render / fd_random_rule (flow descriptions)

IE = dict(CreatePDR=1, PDI=2, CreateFAR=3, FwdParams=4, CreateURR=6, CreateQER=7, UpdatePDR=9, UpdateFAR=10, UpdFwdParams=11, UpdateURR=13,
          UpdateQER=14, RemovePDR=15, RemoveFAR=16, RemoveURR=17, RemoveQER=18, SourceInterface=20, FTEID=21, NetworkInstance=22, SDFFilter=23,
          ApplicationID=24, GateStatus=25, MBR=26, GBR=27, QERCorrelationID=28, Precedence=29, VolumeThreshold=31, ReportingTriggers=37,
          ForwardingPolicy=41, DestinationInterface=42, ApplyAction=44, DDNDelay=46, PFCPSMReqFlags=49, PDRID=56, MeasurementMethod=62,
          MeasurementPeriod=64, VolumeQuota=73, URRID=81, OuterHeaderCreation=84, CreateBAR=85, UpdateBAR=86, RemoveBAR=87, BARID=88,
          UEIPAddress=93, OuterHeaderRemoval=95, MeasurementInformation=100, FARID=108, QERID=109, RQI=123, QFI=124, SuggestedBufferingPackets=140, PPI=158)


def L(t, v, **kw):
    d = {"t": IE[t] if isinstance(t, str) else t, "v": list(v), "kids": [], "g": False}
    d.update(kw)
    return d


def G(t, kids):
    return {"t": IE[t], "v": [], "kids": kids, "g": True}


def octs(rng, n, cls=None):
    """n octets of a value class: zero, one, max, high-bit-only, random"""
    cls = cls or rng.choice(["zero", "one", "max", "high", "rnd", "rnd", "rnd"])
    if cls == "zero":
        return [0] * n
    if cls == "one":
        return [0] * (n - 1) + [1]
    if cls == "max":
        return [255] * n
    if cls == "high":
        return [128] + [0] * (n - 1)
    return [rng.randrange(256) for _ in range(n)]


def nz(rng, n):
    v = octs(rng, n)
    return v if any(v) else [0] * (n - 1) + [7]


def shuffle_kids(rng, node, mode):
    if mode == "keep":
        return
    if mode == "rev":
        node["kids"].reverse()
    else:
        rng.shuffle(node["kids"])
    for k in node["kids"]:
        if k["g"]:
            shuffle_kids(rng, k, mode)


def concretise(s, rng):
    """abstract structure -> (tree, extra info)"""
    k = s["kind"]
    if k == "pdr":
        kids = [L("PDRID", nz(rng, 2))]
        if s["prec"]:
            kids.append(L("Precedence", octs(rng, 4)))
        if s["pdi"]:
            pk = [L("SourceInterface", [0 if s["uplink"] else rng.choice([1, 2, 3])])]
            if s["fteid"]:
                pk.append(L("FTEID", [1] + octs(rng, 4) + octs(rng, 4)))
            if s["ueip"]:
                pk.append(L("UEIPAddress", [2] + octs(rng, 4)))
            for _ in range(s["nsdf"]):
                # a third of the filters repeat a string used earlier in the run (uplink and downlink alike): the
                # translation of a string must not depend on what was translated before
                pool = rng.__dict__.setdefault("_sdfpool", [])
                if pool and rng.random() < 0.35:
                    r = rng.choice(pool)
                else:
                    r = checks.fd_random_rule(rng)
                    if len(pool) < 12:
                        pool.append(r)
                txt = checks.fd_render(r).encode()
                bid = rng.random() < 0.3
                v = [1 | (16 if bid else 0), 0, len(txt) >> 8, len(txt) & 255] + list(txt) + (octs(rng, 4) if bid else [])
                pk.append(L("SDFFilter", v, rule=r))
            if rng.random() < 0.3:
                pk.append(L("NetworkInstance", list(b"internet")))
            kids.append(G("PDI", pk))
        if s["ohr"]:
            kids.append(L("OuterHeaderRemoval", [rng.choice([0, 1, 2, 6])]))
        if s["far"]:
            kids.append(L("FARID", octs(rng, 4)))
        for _ in range(s["nqer"]):
            kids.append(L("QERID", octs(rng, 4)))
        for _ in range(s["nurr"]):
            kids.append(L("URRID", octs(rng, 4)))
        return G("CreatePDR" if s["create"] else "UpdatePDR", kids)
    if k == "far":
        kids = [L("FARID", nz(rng, 4))]
        if s["aa"] == 1:
            kids.append(L("ApplyAction", [rng.randrange(256)]))
        elif s["aa"] == 2:
            kids.append(L("ApplyAction", [rng.randrange(256), rng.randrange(256)]))
        if s["fp"] > 0:
            fk = [L("DestinationInterface", [rng.choice([0, 1])])]
            if s["ohc"] == 1:
                fk.append(L("OuterHeaderCreation", [1, 0] + octs(rng, 4) + octs(rng, 4)))
            elif s["ohc"] == 2:
                fk.append(L("OuterHeaderCreation", [4, 0] + octs(rng, 4) + octs(rng, 2)))
            if s["pol"]:
                n = rng.randint(1, 20)
                pol = [rng.randrange(97, 123) for _ in range(n)]
                c = rng.random()
                if c < 0.25:
                    # the identifier is an octet string: blanks, digits, capitals are part of it - also at its ends
                    pol = [rng.choice([32, 9, 10, 48, 55, 65, 90, 95, 45, 126] + list(range(97, 123))) for _ in range(n)]
                    if rng.random() < 0.6:
                        pol[0] = rng.choice([32, 9])
                    if rng.random() < 0.6:
                        pol[-1] = rng.choice([32, 10, 9])
                fk.append(L("ForwardingPolicy", [n] + pol))
            if s["smreq"]:
                fk.append(L("PFCPSMReqFlags", [rng.randrange(8)]))
            kids.append(G("FwdParams" if s["create"] else "UpdFwdParams", fk))
        if s["bar"]:
            kids.append(L("BARID", octs(rng, 1)))
        return G("CreateFAR" if s["create"] else "UpdateFAR", kids)
    if k == "qer":
        kids = [L("QERID", nz(rng, 4))]
        if s["corr"]:
            kids.append(L("QERCorrelationID", octs(rng, 4)))
        if s["gate"]:
            kids.append(L("GateStatus", [rng.randrange(16)]))
        if s["mbr"]:
            kids.append(L("MBR", octs(rng, 5) + octs(rng, 5)))
        if s["gbr"]:
            kids.append(L("GBR", octs(rng, 5) + octs(rng, 5)))
        if s["qfi"]:
            kids.append(L("QFI", [rng.randrange(64)]))
        if s["rqi"]:
            kids.append(L("RQI", [rng.randrange(2)]))
        if s["ppi"]:
            kids.append(L("PPI", [rng.randrange(8)]))
        return G("CreateQER" if s["create"] else "UpdateQER", kids)
    if k == "urr":
        kids = [L("URRID", nz(rng, 4))]
        if s["meth"]:
            kids.append(L("MeasurementMethod", [rng.randrange(8)]))
        if s["trig"]:
            perio = 1 if s["trig"] in (1, 3) else 0
            o1 = (rng.randrange(256) & 0xfe) | perio
            kids.append(L("ReportingTriggers", [o1, rng.randrange(256)] + ([rng.randrange(4)] if rng.random() < 0.5 else [])))
        if s["period"]:
            kids.append(L("MeasurementPeriod", [0, 0] + [rng.randrange(256), rng.randrange(1, 256)]))
        if s["minfo"]:
            kids.append(L("MeasurementInformation", [rng.randrange(32)]))
        for key, name in (("thr", "VolumeThreshold"), ("quota", "VolumeQuota")):
            f = s[key]
            if f < 8:
                n = bin(f).count("1")
                kids.append(L(name, [f] + sum((octs(rng, 8) for _ in range(n)), [])))
        return G("CreateURR" if s["create"] else "UpdateURR", kids)
    if k == "bar":
        kids = [L("BARID", octs(rng, 1))]
        if s["delay"]:
            kids.append(L("DDNDelay", octs(rng, 1)))
        if s["count"]:
            kids.append(L("SuggestedBufferingPackets", octs(rng, 1)))
        return G("CreateBAR" if s["create"] else "UpdateBAR", kids)
    raise ValueError(k)


FN = {1: "CreatePDR", 9: "UpdatePDR", 3: "CreateFAR", 10: "UpdateFAR", 7: "CreateQER", 14: "UpdateQER", 6: "CreateURR", 13: "UpdateURR",
      85: "CreateBAR", 86: "UpdateBAR"}
NOTREE = {"t": 0, "v": [], "kids": [], "g": False}


def seid_for(rng):
    return rng.choice([1, 2, 255, 256, 2 ** 31, 2 ** 32 - 1, 2 ** 32, 2 ** 63 - 1, 2 ** 63, 2 ** 64 - 2, 2 ** 64 - 1, rng.randrange(1, 2 ** 64), rng.randrange(1, 2 ** 64)])


def vector(vid, s, rng, order):
    tree = concretise(s, rng)
    shuffle_kids(rng, tree, order)
    seid = seid_for(rng)
    steps = [{"fn": FN[tree["t"]], "tree": tree, "period": 0, "version": ""}]
    vers = [[]]
    if s["kind"] == "urr":
        per = [k for k in tree["kids"] if k["t"] == IE["MeasurementPeriod"]]
        p = (per[0]["v"][2] * 256 + per[0]["v"][3]) if per else 77
        uid = [k for k in tree["kids"] if k["t"] == IE["URRID"]][0]
        steps.append({"fn": "tick", "tree": NOTREE, "period": p, "version": ""})
        steps.append({"fn": "RemoveURR", "tree": G("RemoveURR", [L("URRID", uid["v"])]), "period": 0, "version": ""})
        steps.append({"fn": "tick", "tree": NOTREE, "period": p, "version": ""})
        vers += [[], [], []]
    return {"id": vid, "seid": str(seid), "steps": steps,
            "meta": {"seidle": [(seid >> (8 * i)) & 255 for i in range(8)], "vers": vers, "st": s, "order": order}}


def version_vectors(rng, n):
    out = []
    cases = [(x, y, z) for x in (0, 1) for y in (8, 9, 10, 11) for z in range(0, 13)]
    for i, (x, y, z) in enumerate(cases):
        out.append({"id": "ver-%d" % i, "seid": "1", "steps": [{"fn": "version", "tree": NOTREE, "period": 0, "version": "%d.%d.%d" % (x, y, z)}],
                    "meta": {"seidle": [1, 0, 0, 0, 0, 0, 0, 0], "vers": [[x, y, z]], "st": {}, "order": ""}})
    # pre-releases order just below their version, build metadata does not count
    for i, (txt, v) in enumerate([("0.9.5-rc1", [0, 9, 5, 1]), ("0.9.5-beta.2", [0, 9, 5, 1]), ("0.9.6-rc1", [0, 9, 6, 1]), ("0.9.14-alpha", [0, 9, 14, 1]),
                                  ("0.10.0-rc1", [0, 10, 0, 1]), ("0.10.1-rc1", [0, 10, 1, 1]), ("0.9.4-rc9", [0, 9, 4, 1]), ("1.0.0-rc1", [1, 0, 0, 1]),
                                  ("0.9.5+build7", [0, 9, 5]), ("0.9.7+b1", [0, 9, 7]), ("0.10.0+b", [0, 10, 0]), ("0.9.5-alpha+build7", [0, 9, 5, 1])]):
        out.append({"id": "verpre-%d" % i, "seid": "1", "steps": [{"fn": "version", "tree": NOTREE, "period": 0, "version": txt}],
                    "meta": {"seidle": [1, 0, 0, 0, 0, 0, 0, 0], "vers": [v], "st": {}, "order": ""}})
    for i, bad in enumerate(["", "abc", "0.9.x", "v", "0..5"]):
        out.append({"id": "verbad-%d" % i, "seid": "1", "steps": [{"fn": "version", "tree": NOTREE, "period": 0, "version": bad}],
                    "meta": {"seidle": [1, 0, 0, 0, 0, 0, 0, 0], "vers": [[]], "st": {}, "order": ""}})
    return out
