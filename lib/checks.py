"""The checks behind ./check <Cxx>."""
import concurrent.futures as cf
import json
import os
import re
import subprocess
import time

import gen_l1
import vlib
from vlib import Infra, log

REGISTRY = {}

# ============================================================================================== L1 (PFCP level)

L1_MODULES = ["Mon.tla", "Upf.tla", "MC_Upf.tla", "SeidAlloc.tla"]

MC_COMMON = """SPECIFICATION Spec
INVARIANT NoVerdict
INVARIANT AllocInv
PROPERTY AllocRefines
VIEW View
CHECK_DEADLOCK FALSE
"""

# exhaustive configurations of the ideal model (one per property family)
MC_CFG = {
    "Lifecycle": """CONSTANTS
  Peers = {"p1", "p2"}
  NodeIds = {"n1", "n2"}
  CpSeids = {"7"}
  EstOps <- LcEstOps
  ModOps <- LcModOps
  FaultSets = {{}, {0}, {1}}
  Fault2Sets = {{}, {0}}
  SeidLits = {"0", "1", "9", "18446744073709551615"}
  Kinds = {"assoc", "est", "mod", "del", "report", "rptrsp", "takeover", "dup", "badnode"}
  MaxSlots = 3
  MaxRt = 1
  TxSeq0 = 0
  SeqNos = {}
""",
    "RxTx": """CONSTANTS
  Peers = {"p1", "p2"}
  NodeIds = {"n1"}
  CpSeids = {"7"}
  EstOps <- RtEstOps
  ModOps <- RtModOps
  FaultSets = {{}}
  Fault2Sets = {{}}
  SeidLits = {"9"}
  Kinds = {"hb", "assoc", "est", "mod", "del", "report", "rptrsp", "hbrsp", "wrongpeer", "stray", "txto", "rxto", "assocupd"}
  MaxSlots = 2
  MaxRt = %(maxrt)d
  TxSeq0 = %(txseq0)d
  SeqNos = {1, 2}
""",
    "Usage": """CONSTANTS
  Peers = {"p1"}
  NodeIds = {"n1"}
  CpSeids = {"7"}
  EstOps <- UsEstOps
  ModOps <- UsModOps
  FaultSets = {{}}
  Fault2Sets = {{}}
  SeidLits = {"9"}
  Kinds = {"assoc", "est", "mod", "del", "report", "report2"}
  MaxSlots = 2
  MaxRt = 1
  TxSeq0 = 0
  SeqNos = {}
""",
}

# property -> (MC family, quick turns, thorough turns, [(random family, share)])
L1_PLAN = {
    "C01": ("Lifecycle", 3, 4, [("lifecycle", 1.0), ("usage", 0.2), ("rxtx", 0.2)]),
    "C04": ("Lifecycle", 3, 4, [("lifecycle", 1.0), ("usage", 0.2), ("rxtx", 0.2)]),
    "C05": ("Lifecycle", 3, 4, [("lifecycle", 1.0), ("usage", 0.2), ("rxtx", 0.2)]),
    "C08": ("Lifecycle", 3, 4, [("lifecycle", 1.0), ("usage", 0.2), ("rxtx", 0.3)]),
    "C06": ("RxTx", 4, 5, [("rxtx", 1.0), ("lifecycle", 0.3)]),
    "C09": ("RxTx", 4, 5, [("rxtx", 1.0), ("lifecycle", 0.3)]),
    "C10": ("Usage", 4, 5, [("usage", 1.0), ("lifecycle", 0.3)]),
    "C11": ("Usage", 4, 5, [("usage", 1.0), ("lifecycle", 0.3)]),
    "C12": ("Usage", 4, 5, [("usage", 1.0), ("lifecycle", 0.3)]),
}

EDGE_RE = re.compile(r'^<<"EDGE", "(.*)">>$')


def kbase(pid):
    """every property owns ten loopback /24 networks 127.<k>.0.0 so that checks can run side by side"""
    return 10 * int(pid[1:]) + 10


def mc_generate(family, turns, params, sample_mod, sample_key, name, max_edges=None, timeout=3000, simulate=None):
    """Exhaustive TLC run of the ideal model: monitors as invariant, every edge printed with its input path.
    simulate=(num, seed): random walks of exactly `turns` turns instead (tlc -simulate), each printed as one path."""
    d = vlib.stage_spec(L1_MODULES, "mc-" + name)
    cfg = MC_COMMON + MC_CFG[family] % params + "  MaxTurns = %d\n  SampleMod = %d\n  SampleKey = %d\n  EmitAt = %d\nACTION_CONSTRAINT Emit\n" % (
        turns, sample_mod, sample_key, turns if simulate else 0)
    with open(os.path.join(d, "MC.cfg"), "w") as fh:
        fh.write(cfg)
    if simulate:
        cmd = ["tlc", "-workers", "4", "-simulate", "num=%d" % max(1, simulate[0] // 4), "-depth", str(turns + 2), "-seed", str(simulate[1]),
               "-metadir", os.path.join(d, "md"), "-config", "MC.cfg", "MC_Upf.tla"]
    else:
        cmd = ["tlc", "-workers", str(vlib.NCPU), "-metadir", os.path.join(d, "md"), "-config", "MC.cfg", "MC_Upf.tla"]
    t0 = time.time()
    edges = []
    tail = []
    nedges = 0
    p = subprocess.Popen(cmd, cwd=d, env=vlib._tlc_env(), stdout=subprocess.PIPE, stderr=subprocess.STDOUT, text=True)
    try:
        for ln in p.stdout:
            ln = ln.rstrip("\n")
            m = EDGE_RE.match(ln)
            if m:
                nedges += 1
                if max_edges is None or len(edges) < max_edges:
                    try:
                        edges.append(json.loads(json.loads('"' + m.group(1) + '"')))
                    except ValueError:
                        pass
                if simulate and nedges >= simulate[0]:
                    p.kill()      # enough walks
                    break
                continue
            tail.append(ln)
            if len(tail) > 400:
                tail = tail[-200:]
            if time.time() - t0 > timeout:
                p.kill()
                raise Infra("TLC timed out on MC %s" % family)
        p.wait()
    finally:
        if p.poll() is None:
            p.kill()
    out = "\n".join(tail)
    m = re.search(r"(\d+) states generated, (\d+) distinct states found", out)
    if simulate:
        # simulation mode reports differently (and is ended by us); an invariant violation still says "Error:"
        if "is violated" in out or "Error: The" in out:
            raise Infra("simulation of the ideal model failed (%s, %d turns):\n%s" % (family, turns, out[-3500:]))
        ms = re.search(r"(\d+) states checked", out)
        return {"family": family, "turns": turns, "generated": int(ms.group(1)) if ms else nedges * turns, "distinct": 0,
                "edges_printed": nedges, "edges": edges, "wall": time.time() - t0, "cfg": cfg}
    if p.returncode != 0 or "No error has been found" not in out or not m:
        # a step of the IDEAL MODEL rejected by a monitor (or a TLC error) is a defect of the specification,
        # not of the code: infrastructure
        raise Infra("model checking of the ideal model failed (%s, %d turns):\n%s" % (family, turns, out[-3500:]))
    return {"family": family, "turns": turns, "generated": int(m.group(1)), "distinct": int(m.group(2)),
            "edges_printed": nedges, "edges": edges, "wall": time.time() - t0, "cfg": cfg}


def edges_to_scripts(edges, maxrt, txseq0, prefix):
    scripts = []
    for i, h in enumerate(edges):
        init = gen_l1.ev("init", maxrt=maxrt, txseq0=str(txseq0) if txseq0 else "")
        scripts.append({"id": "%s-%d" % (prefix, i), "events": [init] + h})
    return scripts


def execute_and_judge(binary, scripts, k0, name, nproc=None, lockstep=True):
    """run scripts on the real server, validate the recorded traces with TLC; returns (violations, stats)"""
    nproc = nproc or min(vlib.NCPU, 10)      # every property owns ten loopback networks (kbase)
    nproc = max(1, min(nproc, len(scripts)))
    # chunks of at most ~1500 scripts (bounded trace files, bounded TLC memory), processed by a pool of nproc workers
    nchunks = max(nproc, -(-len(scripts) // 1500))
    chunks = [c for c in (scripts[i::nchunks] for i in range(nchunks)) if c]
    byid = {s["id"]: s for s in scripts}
    import queue as _q
    kq = _q.Queue()
    for j in range(nproc):
        kq.put(k0 + j)

    def work(i):
        kk = kq.get()
        try:
            return work1(i, kk)
        finally:
            kq.put(kk)

    def work1(i, kk):
        fout, info = vlib.run_l1(binary, chunks[i], kk, "%s-%d" % (name, i))
        lines = vlib.read_ndjson(fout)
        crashed = None
        if info["rc"] != 0:
            if "INFRA:" in info["tail"]:
                raise Infra("L1 executor: " + info["tail"][-1500:])
            # the child died (panic in a goroutine nobody recovers, or a hang): the last script it worked on
            crashed = {"rc": info["rc"], "tail": info["tail"][-3000:], "tr": lines[-1]["tr"] if lines else chunks[i][0]["id"]}
        doc = vlib.tlc_trace(fout, "%s-%d" % (name, i)) if lines else {"lines": 0, "viol": []}
        # lock-step comparison with the ideal model (informational: SPEC-DIVERGENCE never decides a property)
        ideal = {"div": [], "compared": 0}
        if lines and lockstep:
            try:
                ideal = vlib.tlc_trace(fout, "%s-%d-ideal" % (name, i), spec="Trace_Ideal", modules=("Mon.tla", "Upf.tla"))
            except Infra as ex:
                ideal = {"div": [], "compared": 0, "error": str(ex)[-300:]}
        idx = {(ln["tr"], ln["i"]): ln for ln in lines} if doc["viol"] else {}
        viol = []
        for v in doc["viol"]:
            viol.append({"tr": v["tr"], "i": v["i"], "tags": sorted(v["tags"]), "line": idx.get((v["tr"], v["i"]))})
        try:
            os.remove(fout)
            os.remove(info["in"])
        except OSError:
            pass
        return viol, len(lines), len({ln["tr"] for ln in lines}), crashed, ideal

    viols, nlines, ntraces, crashes = [], 0, 0, []
    divs, compared, ierr = [], 0, None
    with cf.ThreadPoolExecutor(nproc) as ex:
        for v, nl, nt, cr, ideal in ex.map(work, range(len(chunks))):
            viols += v
            nlines += nl
            ntraces += nt
            divs += ideal.get("div", [])
            compared += ideal.get("compared", 0)
            ierr = ierr or ideal.get("error")
            if cr:
                crashes.append(cr)
    for v in viols:
        v["script"] = byid.get(v["tr"])
    for dv in divs[:5]:
        log("SPEC-DIVERGENCE (informational) trace %s line %d event %s: %s differ between the ideal model and the code\n    model: %s\n    code:  %s" % (
            dv["tr"], dv["i"], dv["t"], dv["what"], json.dumps(dv.get("model"))[:600], json.dumps(dv.get("code"))[:600]))
    if ierr:
        log("note: lock-step validation did not complete: %s" % ierr)
    return viols, {"events": nlines, "traces": ntraces, "crashes": crashes, "lockstep_compared": compared, "lockstep_divergences": len(divs)}


def brief(script, upto=None):
    evs = script["events"] if upto is None else script["events"][:upto + 1]
    out = []
    for e in evs:
        out.append({k: v for k, v in e.items() if v not in ("", 0, [], False) and k not in ("reports",)} |
                   ({"reports": [{k: r[k] for k in ("k", "urr", "trig", "pdr", "action") if r.get(k)} for r in e["reports"]]} if e.get("reports") else {}))
    return out


def report_violations(pid, viols, crashes, family_note):
    """print VIOLATION / KNOWN-FINDING lines; returns number of violations of pid"""
    known = vlib.load_known()
    mine = [v for v in viols if any(t.startswith(pid + ":") for t in v["tags"])]
    infra = [v for v in viols if any(t.startswith("INFRA:") for t in v["tags"])]
    if infra:
        raise Infra("the model data plane misbehaved: %s" % infra[0]["tags"])
    n = 0
    seen_known = set()
    for v in mine:
        kf = match_known(known, pid, v)
        if kf:
            if kf["id"] not in seen_known:
                seen_known.add(kf["id"])
                print("KNOWN-FINDING: property=%s %s" % (pid, kf["what"]))
            continue
        n += 1
        if n <= 5:
            doc = {"property": pid, "kind": "l1", "tags": v["tags"], "trace": v["tr"], "line": v["i"],
                   "script": {"id": v["tr"], "events": (v["script"] or {"events": []})["events"][:v["i"] + 1]},
                   "recorded": v["line"], "note": family_note}
            path = vlib.save_replay(pid, "%s-%d" % (re.sub(r"[^A-Za-z0-9_-]", "_", v["tr"]), v["i"]), doc)
            for t in v["tags"]:
                if t.startswith(pid + ":"):
                    log("  rejected: %s  (trace %s line %d)" % (t, v["tr"], v["i"]))
            print("VIOLATION property=%s replay=%s" % (pid, path))
    return n


def match_known(known, pid, v):
    for kf in known:
        if pid not in kf.get("properties", []):
            continue
        m = kf.get("match", {})
        if "tag" in m and not any(re.search(m["tag"], t) for t in v["tags"]):
            continue
        e = (v.get("line") or {}).get("e", {})
        ok = True
        for k, pat in m.get("event", {}).items():
            if not re.search(pat, str(e.get(k, ""))):
                ok = False
        if ok:
            return kf
    return None


def others_summary(pid, viols):
    c = {}
    for v in viols:
        for t in v["tags"]:
            if not t.startswith(pid + ":"):
                c[t] = c.get(t, 0) + 1
    return c


def check_l1(pid, replay=None):
    t0 = time.time()
    family, tq, tt, fams = L1_PLAN[pid]
    thorough = vlib.tier() == "thorough"
    seed = vlib.seed()
    binary = vlib.build_test_binary("internal/pfcp")
    if replay:
        return replay_l1(pid, replay, binary)

    # ---- 1. the ideal model satisfies every monitor (exhaustive, bounded); every edge becomes a test
    params = {"maxrt": 1 + seed % 2, "txseq0": [0, 16777215, 16777214][seed % 3]}
    turns = tt if thorough else tq
    # the deepest Lifecycle graph has about 10^6 edges: sample them inside TLC (path hash modulo), not in Python
    smod = 7 if (thorough and family == "Lifecycle") else 1
    mc = mc_generate(family, turns, params, smod, seed % smod, pid + "-q", max_edges=400000)
    log("MC %s turns=%d: %d distinct states, %d transitions, %d edges printed in %.0fs" % (
        family, turns, mc["distinct"], mc["generated"], mc["edges_printed"], mc["wall"]))
    edges = mc["edges"]
    budget = 150000 if thorough else 12000
    if len(edges) > budget:
        import random
        rng = random.Random(seed)
        # keep every deepest edge class represented: uniform sample
        edges = rng.sample(edges, budget)
    maxrt = params["maxrt"] if family == "RxTx" else 1
    txseq0 = params["txseq0"] if family == "RxTx" else 0
    scripts = edges_to_scripts(edges, maxrt, txseq0, "mc-" + family)

    # ---- 1b. random walks of the ideal model far beyond the exhaustive bound (tlc -simulate): monitors checked along
    #          every walk, every walk replayed on the real server
    wturns, wnum = (12, 6000) if thorough else (10, 400)
    cfg_backup = MC_CFG[family]
    try:
        MC_CFG[family] = MC_CFG[family].replace('Kinds = {', 'Kinds = {"simbias", ', 1)
        walks = mc_generate(family, wturns, params, 1, 0, pid + "-w", simulate=(wnum, seed))
    finally:
        MC_CFG[family] = cfg_backup
    log("MC %s random walks: %d walks of %d turns (monitors hold along all of them) in %.0fs" % (family, len(walks["edges"]), wturns, walks["wall"]))
    scripts += edges_to_scripts(walks["edges"], maxrt, txseq0, "walk-" + family)

    # ---- 2. seeded random histories beyond the bounds of the model
    nrand = 6000 if thorough else 400
    rnd = []
    for fam, share in fams:
        rnd += getattr(gen_l1, fam)(seed, max(20, int(nrand * share)))
    if pid == "C11":
        rnd += gen_l1.seq16(seed)     # one URR reporting more than 2^16 times
    log("executing %d model paths and %d random histories on the real PfcpServer" % (len(scripts), len(rnd)))

    v1, s1 = execute_and_judge(binary, scripts, kbase(pid), pid + "-mc")
    v2, s2 = execute_and_judge(binary, rnd, kbase(pid), pid + "-rnd")
    viols = v1 + v2
    crashes = s1["crashes"] + s2["crashes"]
    nviol = report_violations(pid, viols, crashes, "family %s" % family)
    if crashes and not nviol:
        # a child that died without a verdict: for these properties that is infrastructure unless the trace shows a fatal line
        raise Infra("L1 executor died: %s" % crashes[0]["tail"][-1200:])
    others = others_summary(pid, viols)
    if others:
        log("note: verdicts of other properties seen in the same executions: %s" % json.dumps(others))

    cov = {
        "states": mc["distinct"], "transitions": mc["generated"],
        "traces_validated_against_impl": s1["traces"] + s2["traces"],
        "samples": [brief(scripts[0]) if scripts else [], brief(scripts[-1]) if scripts else [], brief(rnd[0])[:12]],
        "mc_family": family, "mc_turns": turns, "mc_constants": mc["cfg"],
        "edges_total": mc["edges_printed"], "edges_replayed": len(scripts) - len(walks["edges"]),
        "simulation_walks": len(walks["edges"]), "simulation_walk_turns": wturns, "simulation_states_checked": walks["generated"],
        "random_histories": len(rnd), "events_executed_on_impl": s1["events"] + s2["events"],
        "lockstep_steps_compared_with_ideal_model": s1["lockstep_compared"] + s2["lockstep_compared"],
        "lockstep_divergences": s1["lockstep_divergences"] + s2["lockstep_divergences"],
        "exhaustive": len(scripts) - len(walks["edges"]) == mc["edges_printed"] and smod == 1,
        "edge_sample": "1/%d of the edges, chosen inside TLC by a hash of the path" % smod,
        "checker_cmd": "tlc MC_Upf.tla (INVARIANT NoVerdict, ACTION_CONSTRAINT Emit); tlc Trace_Upf.tla per recorded chunk",
        "verdicts_of_other_properties": others,
    }
    vlib.write_evidence(pid, "model_checking", cov, time.time() - t0, nviol, [
        "TLC 1.8 / CommunityModules Json", "go-pfcp as codec of the simulated SMFs", "model data plane twin (its own behaviour is checked by TwinOk on every step)",
        "exhaustive result holds for the constants in mc_constants; beyond them seeded random histories"])
    return 1 if nviol else 0


def replay_l1(pid, path, binary):
    with open(path) as fh:
        doc = json.load(fh)
    script = doc["script"]
    viols, st = execute_and_judge(binary, [script], kbase(pid) + 9, pid + "-replay", nproc=1)
    for v in viols:
        log("line %d: %s" % (v["i"], v["tags"]))
    mine = [v for v in viols if any(t.startswith(pid + ":") for t in v["tags"])]
    if st["crashes"]:
        log("executor died: " + st["crashes"][0]["tail"][-800:])
    if mine:
        print("VIOLATION property=%s replay=%s" % (pid, path))
        return 1
    log("replay: no verdict for %s on the current tree" % pid)
    return 0


for _p in L1_PLAN:
    REGISTRY[_p] = check_l1


# ============================================================================================== L0 (function level)

def judge_l0(pid, outs, spec, modules, name, nproc=None):
    """validate recorded function evaluations with a Trace_* specification, in parallel chunks"""
    nproc = max(1, min(nproc or vlib.NCPU, len(outs) // 2000 + 1))
    d = vlib.sub("l0j")
    paths = []
    for i in range(nproc):
        pth = os.path.join(d, "%s-%d.ndjson" % (name, i))
        with open(pth, "w") as fh:
            for o in outs[i::nproc]:
                fh.write(json.dumps(o, separators=(",", ":")) + "\n")
        paths.append(pth)
    viols = []
    with cf.ThreadPoolExecutor(nproc) as ex:
        docs = list(ex.map(lambda a: vlib.tlc_trace(a[1], "%s-%d" % (name, a[0]), spec=spec, modules=modules), enumerate(paths)))
    for i, doc in enumerate(docs):
        chunk = outs[i::nproc]
        for v in doc["viol"]:
            viols.append({"tr": v["tr"], "i": v["i"], "tags": sorted(v["tags"]), "line": chunk[v["i"] - 1]})
    return viols


def report_l0(pid, viols, mk_replay):
    infra = [v for v in viols if any(t.startswith("INFRA:") for t in v["tags"])]
    if infra:
        raise Infra("reference inconsistent: %s" % infra[0])
    known = vlib.load_known()
    mine = [v for v in viols if any(t.startswith(pid + ":") for t in v["tags"])]
    n = 0
    seen = set()
    for v in mine:
        kf = match_known(known, pid, {"tags": v["tags"], "line": {"e": v["line"]}})
        if kf:
            if kf["id"] not in seen:
                seen.add(kf["id"])
                print("KNOWN-FINDING: property=%s %s" % (pid, kf["what"]))
            continue
        n += 1
        if n <= 5:
            path = vlib.save_replay(pid, re.sub(r"[^A-Za-z0-9_-]", "_", str(v["tr"]))[:60] + "-%d" % n, mk_replay(v))
            for t in v["tags"]:
                log("  rejected: %s  (%s)" % (t, json.dumps({k: v["line"][k] for k in list(v["line"])[:8]})[:300]))
            print("VIOLATION property=%s replay=%s" % (pid, path))
    return n


def check_c14(pid, replay=None):
    import random
    t0 = time.time()
    thorough = vlib.tier() == "thorough"
    binary = vlib.build_test_binary("internal/gtpv1")
    mods = ["GtpuEnc.tla"]
    if replay:
        with open(replay) as fh:
            vec = json.load(fh)["vector"]
        fout, info = vlib.run_l0(binary, "TestVerifGtpu", [vec], "replay")
        viols = judge_l0(pid, vlib.read_ndjson(fout), "Trace_Gtpu", mods, "c14r")
        if any(t.startswith("C14:") for v in viols for t in v["tags"]):
            print("VIOLATION property=%s replay=%s" % (pid, replay))
            return 1
        log("replay: accepted on the current tree")
        return 0
    vecs, st = vlib.tlc_vectors("MC_Gtpu.tla", "MC_Gtpu.cfg", mods, "c14")
    log("MC_Gtpu: %d states (reference well-formed on all of them) in %.0fs" % (st["distinct"], st["wall"]))
    rng = random.Random(vlib.seed())
    for i, v in enumerate(vecs):
        v["id"] = "mc-%d" % i
        v["pseed"] = i
    nrand = 200000 if thorough else 20000
    rnd = []
    for i in range(nrand):
        ext = rng.random() < 0.7
        rnd.append({"id": "rnd-%d" % i, "teid": [rng.randrange(256) for _ in range(4)], "ext": ext,
                    "ptype": rng.randrange(16) if ext else 0, "qfi": rng.randrange(64) if ext else 0,
                    "plen": rng.choice([rng.randrange(0, 64), rng.randrange(0, 2000), rng.randrange(1390, 1510)]), "pseed": rng.randrange(1 << 30)})
    if not thorough:
        # quick: all boundary payload lengths below 16 octets for every QFI / PDU type, a seeded third of the long ones
        vecs = [v for v in vecs if v["plen"] < 16 or rng.random() < 0.34]
    inputs = vecs + rnd
    fout, info = vlib.run_l0(binary, "TestVerifGtpu", inputs, "c14")
    if info["rc"] != 0:
        raise Infra("gtpu executor failed: " + info["tail"])
    outs = vlib.read_ndjson(fout)
    if len(outs) != len(inputs):
        raise Infra("gtpu executor: %d of %d vectors evaluated" % (len(outs), len(inputs)))
    viols = judge_l0(pid, outs, "Trace_Gtpu", mods, "c14")
    n = report_l0(pid, viols, lambda v: {"property": pid, "kind": "gtpu", "tags": v["tags"], "vector": {k: v["line"][k] for k in ("id", "teid", "ext", "ptype", "qfi", "plen", "pseed")}, "recorded": v["line"]})
    cov = {"states": st["distinct"], "transitions": st["generated"], "traces_validated_against_impl": len(outs),
           "samples": [{k: o[k] for k in ("teid", "ext", "ptype", "qfi", "plen", "hex")} | {"hex": o["hex"][:40]} for o in (outs[0], outs[len(outs) // 2], outs[-1])],
           "exhaustive": thorough, "mc_vectors": len(vecs), "random_vectors": len(rnd),
           "domain": "QFI 0..63 x PDU type 0..15 x ext x 5 TEID classes x 14 payload lengths (0..9, 1399..1500); random: TEID 32 bit, payload 0..2000",
           "checker_cmd": "tlc MC_Gtpu.tla (INVARIANT RefWellFormed); tlc Trace_Gtpu.tla"}
    vlib.write_evidence(pid, "model_checking", cov, time.time() - t0, n, [
        "GtpuEnc.tla transcribes TS 29.281 5.1/5.2.1 and TS 38.415 5.5.2 for flags 0x34; its WellFormed reading is checked against its own encoder by TLC",
        "payload bytes are opaque to the reference (position, length and identity are checked)"])
    return 1 if n else 0


REGISTRY["C14"] = check_c14


# ---------------------------------------------------------------------------------------------- C19 flag octets

FLAG_RUNS_QUICK = [("aa1", 0, 255, 1), ("aa2", 0, 65535, 1), ("rt2", 0, 65535, 3), ("rt3", 0, 16777215, 331),
                   ("urt", 0, 4194303, 97), ("map", 0, 262143, 11), ("vm", 0, 127, 1)]
FLAG_RUNS_THOROUGH = [("aa1", 0, 255, 1), ("aa2", 0, 65535, 1), ("rt2", 0, 65535, 1), ("rt3", 0, 262143, 1), ("rt3", 262144, 16777215, 53),
                      ("urt", 0, 4194303, 7), ("map", 0, 262143, 1), ("vm", 0, 127, 1)]


def check_c19(pid, replay=None):
    import random
    t0 = time.time()
    thorough = vlib.tier() == "thorough"
    binary = vlib.build_test_binary("internal/report")
    mods = ["Flags.tla"]
    tables = None
    if replay:
        with open(replay) as fh:
            vec = json.load(fh)["vector"]
        fout, info = vlib.run_l0(binary, "TestVerifFlags", [vec], "replay")
        viols = judge_l0(pid, vlib.read_ndjson(fout), "Trace_Flags", mods, "c19r")
        if any(t.startswith("C19:") for v in viols for t in v["tags"]):
            print("VIOLATION property=%s replay=%s" % (pid, replay))
            return 1
        log("replay: accepted on the current tree")
        return 0
    runs = FLAG_RUNS_THOROUGH if thorough else FLAG_RUNS_QUICK
    vecs, states, trans = [], 0, 0

    def one(r):
        f, lo, hi, stride = r
        cfg = 'SPECIFICATION Spec\nCONSTANTS\n F = "%s"\n Lo = %d\n Hi = %d\n Stride = %d\nINVARIANT RoundTrip\nINVARIANT MapOk\nCHECK_DEADLOCK FALSE\n' % (f, lo, hi, stride)
        return vlib.tlc_vectors("MC_Flags.tla", "MC.cfg", mods, "c19-%s-%d" % (f, lo), cfg_text=cfg, workers=2), f

    with cf.ThreadPoolExecutor(len(runs)) as ex:
        for (vs, st), f in ex.map(one, runs):
            states += st["distinct"]
            trans += st["generated"]
            vecs += vs
    # the tables, as the specification states them (printed once per TLC run)
    d = vlib.stage_spec(mods + ["MC_Flags.tla"], "c19-tbl")
    with open(os.path.join(d, "MC.cfg"), "w") as fh:
        fh.write('SPECIFICATION Spec\nCONSTANTS\n F = "vm"\n Lo = 0\n Hi = 0\n Stride = 1\nCHECK_DEADLOCK FALSE\n')
    out = subprocess.run(["tlc", "-workers", "1", "-metadir", os.path.join(d, "md"), "-config", "MC.cfg", "MC_Flags.tla"], cwd=d,
                         env=vlib._tlc_env(), stdout=subprocess.PIPE, stderr=subprocess.STDOUT, text=True, timeout=300).stdout
    m = re.search(r'^<<"TBL", "(.*)">>$', out, re.M)
    if not m:
        raise Infra("tables not exported by TLC:\n" + out[-2000:])
    tables = json.loads(json.loads('"' + m.group(1) + '"'))
    log("MC_Flags: %d words enumerated by TLC over %d configurations (reference round-trip holds)" % (len(vecs), len(runs)))
    rng = random.Random(vlib.seed())
    extra = []
    for f, nbits, n in (("aa", 16, 2), ("rt", 24, 3), ("urt", 22, 3), ("map", 18, 3)):
        for i in range(nbits):
            extra.append({"f": f, "n": n, "w": 1 << i, "mnop": False})
            for j in range(i):
                extra.append({"f": f, "n": n, "w": (1 << i) | (1 << j), "mnop": False})
        for _ in range(3000 if not thorough else 30000):
            extra.append({"f": f, "n": n, "w": rng.randrange(1 << nbits), "mnop": False})
    extra += [{"f": "aa", "n": 0, "w": 0, "mnop": False}, {"f": "rt", "n": 0, "w": 0, "mnop": False}, {"f": "rt", "n": 1, "w": 255, "mnop": False},
              {"f": "aa", "n": 3, "w": 0x010203, "mnop": False}, {"f": "rt", "n": 4, "w": 0x01020304, "mnop": False}]
    inputs = vecs + extra
    for i, v in enumerate(inputs):
        v["id"] = "%s-%d-%d" % (v["f"], v["n"], v["w"])
        v["names"] = tables[v["f"]]
    fout, info = vlib.run_l0(binary, "TestVerifFlags", inputs, "c19")
    if info["rc"] != 0:
        raise Infra("flags executor failed: " + info["tail"])
    outs = vlib.read_ndjson(fout)
    if len(outs) != len(inputs):
        raise Infra("flags executor: %d of %d vectors evaluated" % (len(outs), len(inputs)))
    for o in outs:
        o.pop("names", None)
    viols = judge_l0(pid, outs, "Trace_Flags", mods, "c19")
    n = report_l0(pid, viols, lambda v: {"property": pid, "kind": "flags", "tags": v["tags"],
                                         "vector": {k: v["line"][k] for k in ("id", "f", "n", "w", "mnop")} | {"names": tables[v["line"]["f"]]},
                                         "recorded": v["line"]})
    cov = {"states": states, "transitions": trans, "traces_validated_against_impl": len(outs),
           "samples": [{k: o[k] for k in ("f", "n", "w", "set", "enc")} for o in (outs[3], outs[len(outs) // 2], outs[-6])],
           "runs": [list(r) for r in runs], "explicit_vectors": len(extra), "exhaustive": thorough,
           "tables": tables, "checker_cmd": "tlc MC_Flags.tla (INVARIANT RoundTrip, MapOk) per family; tlc Trace_Flags.tla"}
    vlib.write_evidence(pid, "model_checking", cov, time.time() - t0, n, [
        "Flags.tla transcribes TS 29.244 8.2.19, 8.2.26, 8.2.40, 8.2.41 by hand (independently of report.go)",
        "REEMR has no usage-report trigger of the same name: nothing is required for it",
        "quick tier strides over the 2^24 / 2^22 word spaces (plus all single bits and pairs); thorough enumerates the defined-bit spaces"])
    return 1 if n else 0


REGISTRY["C19"] = check_c19


# ---------------------------------------------------------------------------------------------- C16 flow descriptions

def fd_render(rule, rng=None):
    """abstract rule -> IPFilterRule string (spacing varied when rng is given)"""
    def addr(a):
        if a["k"] in ("any", "assigned"):
            return a["k"]
        ip = ".".join(str(x) for x in a["ip"])
        return ip if a["k"] == "host" else "%s/%d" % (ip, a["n"])

    def num(v):
        # decimal numbers, now and then written with leading zeros (still decimal: "0080" is port 80)
        if rng is not None and rng.random() < 0.08:
            return rng.choice(["0%d", "00%d", "%05d"]) % v
        return str(v)

    def ports(ps):
        return ",".join(num(p["lo"]) if p["single"] else "%s-%s" % (num(p["lo"]), num(p["hi"])) for p in ps)
    toks = ["permit", rule["dir"], "ip" if rule["proto"] == -1 else str(rule["proto"]), "from", addr(rule["src"])]
    if rule["sports"]:
        toks.append(ports(rule["sports"]))
    toks += ["to", addr(rule["dst"])]
    if rule["dports"]:
        toks.append(ports(rule["dports"]))
    if rng is None:
        return " ".join(toks)
    s = rng.choice(["", " ", "\t"]) if rng.random() < 0.2 else ""
    for i, t in enumerate(toks):
        s += t + (rng.choice([" ", " ", "  ", "\t", "   "]) if i < len(toks) - 1 else rng.choice(["", "", " "]))
    return s


def fd_random_rule(rng):
    def addr():
        k = rng.choice(["any", "assigned", "host", "cidr", "cidr"])
        ip = [rng.randrange(256) for _ in range(4)]
        if k in ("any", "assigned"):
            return {"k": k, "ip": [0, 0, 0, 0], "n": 0}
        return {"k": k, "ip": ip, "n": 32 if k == "host" else rng.randrange(33)}

    def ports():
        n = rng.choice([0, 0, 1, 1, 2, 3, 5, 8])
        out = []
        for _ in range(n):
            if rng.random() < 0.5:
                p = rng.choice([0, 1, 80, 65535, rng.randrange(65536)])
                out.append({"lo": p, "hi": p, "single": True})
            else:
                lo = rng.randrange(65536)
                hi = rng.randrange(lo, 65536)
                c = rng.random()
                if c < 0.15:
                    hi = lo                       # a range of one port, written as a range
                elif c < 0.25:
                    lo, hi = rng.choice([(0, 65535), (0, 0), (65535, 65535), (0, 1), (65534, 65535)])
                out.append({"lo": lo, "hi": hi, "single": False})
        return out
    return {"dir": rng.choice(["in", "out"]), "proto": rng.choice([-1, 6, 17, rng.randrange(256)]), "src": addr(), "sports": ports(),
            "dst": addr(), "dports": ports()}


def fd_mutations(s, rng):
    """near-miss mutations of a valid rule: token dropped / duplicated / misspelt, numbers out of range, stray bytes"""
    toks = s.split()
    out = []
    for i in range(len(toks)):
        out.append(" ".join(toks[:i] + toks[i + 1:]))
        out.append(" ".join(toks[:i] + [toks[i], toks[i]] + toks[i + 1:]))
        out.append(" ".join(toks[:i] + [toks[i][:-1]] + toks[i + 1:]))
        out.append(" ".join(toks[:i] + [toks[i] + rng.choice(["x", ",", "-", "/", "/33", ".", "\x00", "\xff"])] + toks[i + 1:]))
    out += [s.replace("permit", "deny"), s.replace("from", "form"), s + " 99999", s.replace(" to ", " to to "), s.upper(),
            s.replace("ip", "256"), s.replace("any", "::1"), s.replace("any", "1.2.3"), s.replace("any", "1.2.3.4/"), s.replace("any", "300.1.1.1"),
            "", " ", "permit", "permit out", "permit out ip from", "permit out ip from any to", ",", "-", "permit out ip from any , to any"]
    return out


def check_c16(pid, replay=None):
    import random
    t0 = time.time()
    thorough = vlib.tier() == "thorough"
    binary = vlib.build_test_binary("internal/forwarder")
    mods = ["FlowDesc.tla"]
    if replay:
        with open(replay) as fh:
            vec = json.load(fh)["vector"]
        fout, info = vlib.run_l0(binary, "TestVerifFlowDesc", [vec], "replay")
        viols = judge_l0(pid, vlib.read_ndjson(fout), "Trace_FlowDesc", mods, "c16r")
        if info["rc"] != 0 or any(t.startswith("C16:") for v in viols for t in v["tags"]):
            print("VIOLATION property=%s replay=%s" % (pid, replay))
            return 1
        log("replay: accepted on the current tree")
        return 0
    fams = ["proto", "src", "dst", "sport", "dport"]
    rules, states = [], 0

    def one(f):
        cfg = 'SPECIFICATION Spec\nCONSTANTS\n F = "%s"\nINVARIANT RefSane\nCHECK_DEADLOCK FALSE\n' % f
        return vlib.tlc_vectors("MC_FlowDesc.tla", "MC.cfg", mods, "c16-" + f, cfg_text=cfg, workers=2)
    with cf.ThreadPoolExecutor(len(fams)) as ex:
        for vs, st in ex.map(one, fams):
            rules += vs
            states += st["distinct"]
    log("MC_FlowDesc: %d abstract rules enumerated by TLC (reference sane on all of them)" % len(rules))
    rng = random.Random(vlib.seed())
    inputs = []
    for i, r in enumerate(rules):
        for swap in (False, True):
            inputs.append({"id": "mc-%d-%d" % (i, swap), "s": fd_render(r), "swap": swap, "rule": r})
        inputs.append({"id": "mc-%d-sp" % i, "s": fd_render(r, rng), "swap": rng.random() < 0.5, "rule": r})
    nrand = 100000 if thorough else 12000
    for i in range(nrand):
        r = fd_random_rule(rng)
        inputs.append({"id": "rnd-%d" % i, "s": fd_render(r, rng if rng.random() < 0.5 else None), "swap": rng.random() < 0.5, "rule": r})
    ngarb = 0
    for i in range(400 if thorough else 60):
        base = fd_render(fd_random_rule(rng))
        for j, m in enumerate(fd_mutations(base, rng)):
            inputs.append({"id": "mut-%d-%d" % (i, j), "s": m, "swap": rng.random() < 0.5, "rule": None})
            ngarb += 1
    for i in range(5000 if thorough else 500):
        n = rng.choice([0, 1, 5, 40, 200, 5000])
        s = bytes(rng.randrange(256) for _ in range(n)).decode("latin1")
        inputs.append({"id": "raw-%d" % i, "s": s, "swap": False, "rule": None})
        ngarb += 1
    fout, info = vlib.run_l0(binary, "TestVerifFlowDesc", inputs, "c16")
    outs = vlib.read_ndjson(fout)
    if info["rc"] != 0 and "INFRA" in info["tail"]:
        raise Infra("flow-description executor failed: " + info["tail"])
    viols = []
    if info["rc"] != 0 or len(outs) != len(inputs):
        # the executor died on an input (a fault nobody recovered): that input is the finding
        bad = inputs[len(outs)] if len(outs) < len(inputs) else inputs[-1]
        viols.append({"tr": bad["id"], "i": len(outs) + 1, "tags": ["C16:flow-description handling faulted (process died)"], "line": bad})
    viols += judge_l0(pid, outs, "Trace_FlowDesc", mods, "c16")
    n = report_l0(pid, viols, lambda v: {"property": pid, "kind": "flowdesc", "tags": v["tags"],
                                         "vector": {k: v["line"].get(k) for k in ("id", "s", "swap", "rule")}, "recorded": v["line"]})
    cov = {"states": states, "transitions": states, "traces_validated_against_impl": len(outs),
           "samples": [{"s": o["s"], "swap": o["swap"], "packed": o["packed"]} for o in (outs[0], outs[len(rules)], outs[3 * len(rules) + 5])],
           "families": fams, "mc_rules": len(rules), "random_rules": nrand, "garbage_strings": ngarb, "exhaustive": False,
           "checker_cmd": "tlc MC_FlowDesc.tla (INVARIANT RefSane) per family; tlc Trace_FlowDesc.tla"}
    vlib.write_evidence(pid, "model_checking", cov, time.time() - t0, n, [
        "FlowDesc.tla states what a rule denotes (prefix masking by octet arithmetic, port ranges, uplink exchange)",
        "packed form read by an independent attribute walker and cross-checked with go-gtp5gnl DecodeFlowDesc",
        "IPv6 and 'deny' are outside the supported form; garbage strings are only required not to fault"])
    return 1 if n else 0


REGISTRY["C16"] = check_c16


# ---------------------------------------------------------------------------------------------- C20 configuration

def cfg_render(st, rng):
    """abstract document (field -> class) -> (yaml text, want record)"""
    want = {"version": "", "addr": "", "nodeid": "", "rt": "", "maxrt": 0, "forwarder": "", "level": "", "ifaddrs": [], "iftypes": [], "dnns": [], "cidrs": [],
            "extra": []}      # optional values, as strings: description, per interface name/ifname/mtu, per DNN natifname, logger enable/reportCaller
    y = []

    def scalar(key, cls, ok, bad, indent=""):
        if cls == "absent":
            return None
        if cls == "ok":
            return '%s%s: %s' % (indent, key, ok)
        if cls == "empty":
            return '%s%s: ""' % (indent, key)
        if cls == "bad":
            return '%s%s: "%s"' % (indent, key, bad)
        if cls == "mistyped":
            return '%s%s:\n%s  - a\n%s  - b' % (indent, key, indent, indent)
        raise ValueError(cls)

    def add(line):
        if line is not None:
            y.append(line)
    add(scalar("version", st["version"], "1.0.3", rng.choice(["1.0.0", "1.0.4", "2", "1.0.3 "])))
    if st["version"] == "ok":
        want["version"] = "1.0.3"
    desc = rng.choice(["UPF configuration rendered by the verification harness", "x", "upf-%d" % rng.randrange(10 ** 6)])
    add("description: %s" % json.dumps(desc))
    want["extra"].append("desc=" + desc)
    if st["pfcp"] == "ok":
        y.append("pfcp:")
        a = rng.choice(["127.0.0.8", "10.100.200.3", "localhost", "upf.free5gc.org"])
        unres = rng.choice(["no-such-host.invalid", "::1", "upf.seed.invalid"])
        if st["nodeid"] == "unresolvable" and st["addr"] == "ok" and rng.random() < 0.5:
            a = unres       # listen address and node id are the same string: the node id still has to resolve
        add(scalar("addr", st["addr"], ('"%s"' % a) if ":" in a else a, rng.choice(["bad host!", "a b", "-x-.", "http://x/"]), "  "))
        if st["addr"] == "ok":
            want["addr"] = a
        n = rng.choice(["127.0.0.8", "localhost", "127.0.0.1"])
        if st["nodeid"] == "unresolvable":
            y.append("  nodeID: %s" % ('"%s"' % unres if ":" in unres else unres))
        else:
            add(scalar("nodeID", st["nodeid"], n, rng.choice(["bad host!", "a b", "-x-."]), "  "))
        if st["nodeid"] == "ok":
            want["nodeid"] = n
        rt, rts = rng.choice([("1s", "1s"), ("500ms", "500ms"), ("2m", "2m0s"), ("3s", "3s")])
        if st["rt"] == "ok":
            y.append("  retransTimeout: %s" % rt)
            want["rt"] = rts
        elif st["rt"] == "zero":
            y.append("  retransTimeout: 0s")
        elif st["rt"] == "mistyped":
            y.append("  retransTimeout: soon")
        if st["maxrt"] == "ok":
            m = rng.choice([0, 1, 3, 255])
            y.append("  maxRetrans: %d" % m)
            want["maxrt"] = m
        elif st["maxrt"] == "range":
            y.append("  maxRetrans: %d" % rng.choice([256, 300, -1, 70000]))
        elif st["maxrt"] == "mistyped":
            y.append("  maxRetrans: many")
    if st["gtpu"] == "ok":
        y.append("gtpu:")
        add(scalar("forwarder", st["fwd"], "gtp5g", rng.choice(["ovs", "gtp5g2", "GTP5G", "empty"]), "  "))
        if st["fwd"] == "ok":
            want["forwarder"] = "gtp5g"
        il = st["iflist"]
        ents = []
        if il == "empty":
            y.append("  ifList: []")
        elif il != "absent":
            y.append("  ifList:")
            good1 = {"addr": rng.choice(["127.0.0.8", "10.0.0.7", "gtpu.example.org"]), "type": "N3"}
            good2 = {"addr": "10.0.1.9", "type": "N9", "name": "upf.5gc.nctu.me", "mtu": 1400}
            if il == "ok1":
                ents = [good1]
            elif il == "ok2":
                ents = [good1, good2]
            elif il == "okbadaddr":
                ents = [good1, {"addr": "bad host!", "type": "N3"}]
            elif il == "okbadtype":
                ents = [good1, {"addr": "10.0.0.9", "type": rng.choice(["N6", "n3", "N4", ""])}]
            elif il == "notype":
                ents = [{"addr": "10.0.0.9"}]
            elif il == "noaddr":
                ents = [{"type": "N3"}]
            for e in ents:
                # optional members of an interface entry: must come through unchanged too
                if rng.random() < 0.6:
                    e["name"] = rng.choice(["upf.5gc.nctu.me", "n3-%d" % rng.randrange(100)])
                if rng.random() < 0.6:
                    e["ifname"] = rng.choice(["gtpif", "upfgtp%d" % rng.randrange(10)])
                if rng.random() < 0.6:
                    e["mtu"] = rng.choice([0, 1, 1400, 1500, 9000, 65535, 4294967295])
                first = True
                for k, v in e.items():
                    y.append("    %s %s: %s" % ("-" if first else " ", k, json.dumps(v)))
                    first = False
                want["extra"].append("if=%s|%s|%d" % (e.get("name", ""), e.get("ifname", ""), e.get("mtu", 0)))
        want["ifaddrs"] = [e.get("addr", "") for e in ents]
        want["iftypes"] = [e.get("type", "") for e in ents]
    dl = st["dnn"]
    ents = []
    if dl == "empty":
        y.append("dnnList: []")
    elif dl != "absent":
        y.append("dnnList:")
        good1 = {"dnn": "internet", "cidr": rng.choice(["10.60.0.0/24", "10.61.0.0/16", "0.0.0.0/0"])}
        good2 = {"dnn": "ims", "cidr": "10.62.0.1/32", "natifname": "eth0"}
        if dl == "ok1":
            ents = [good1]
        elif dl == "ok2":
            ents = [good1, good2]
        elif dl == "okbadcidr":
            ents = [good1, {"dnn": "x", "cidr": rng.choice(["10.60.0.0/33", "10.60.0.0", "abc", "300.1.1.0/24"])}]
        elif dl == "badcidr":
            ents = [{"dnn": "x", "cidr": rng.choice(["10.60.0.0/33", "10.60.0.0", "abc"])}]
        elif dl == "nodnn":
            ents = [{"cidr": "10.60.0.0/24"}]
        elif dl == "nocidr":
            ents = [{"dnn": "internet"}]
        for e in ents:
            if "natifname" not in e and rng.random() < 0.4:
                e["natifname"] = rng.choice(["eth0", "ens%d" % rng.randrange(9)])
            first = True
            for k, v in e.items():
                y.append("  %s %s: %s" % ("-" if first else " ", k, json.dumps(v)))
                first = False
            want["extra"].append("nat=" + e.get("natifname", ""))
    want["dnns"] = [e.get("dnn", "") for e in ents]
    want["cidrs"] = [e.get("cidr", "") for e in ents]
    if st["logger"] == "ok":
        y.append("logger:")
        en, rc_ = rng.choice([True, False]), rng.choice([True, False])
        y.append("  enable: %s" % ("true" if en else "false"))
        lv = rng.choice(["trace", "debug", "info", "warn", "error", "fatal", "panic"])
        add(scalar("level", st["level"], lv, rng.choice(["verbose", "INFO", "warning", "off"]), "  "))
        if st["level"] == "ok":
            want["level"] = lv
        y.append("  reportCaller: %s" % ("true" if rc_ else "false"))
        want["extra"].append("log=%s|%s" % (en, rc_))
    return "\n".join(y) + "\n", want


def check_c20(pid, replay=None):
    import random
    t0 = time.time()
    thorough = vlib.tier() == "thorough"
    binary = vlib.build_test_binary("pkg/factory")
    mods = ["Config.tla"]
    if replay:
        with open(replay) as fh:
            vec = json.load(fh)["vector"]
        fout, info = vlib.run_l0(binary, "TestVerifConfig", [vec], "replay")
        viols = judge_l0(pid, vlib.read_ndjson(fout), "Trace_Config", mods, "c20r")
        if info["rc"] != 0 or any(t.startswith("C20:") for v in viols for t in v["tags"]):
            print("VIOLATION property=%s replay=%s" % (pid, replay))
            return 1
        log("replay: accepted on the current tree")
        return 0
    k = 3 if thorough else 2
    cfg = 'SPECIFICATION Spec\nCONSTANTS\n MaxFaults = %d\nINVARIANT RefSane\nCHECK_DEADLOCK FALSE\n' % k
    states, st = vlib.tlc_vectors("MC_Config.tla", "MC.cfg", mods, "c20", cfg_text=cfg, workers=4)
    log("MC_Config: %d abstract documents with <= %d faults enumerated by TLC" % (len(states), k))
    rng = random.Random(vlib.seed())
    inputs = []
    reps = 3
    for i, s in enumerate(states):
        for j in range(reps):
            y, want = cfg_render(s, rng)
            inputs.append({"id": "mc-%d-%d" % (i, j), "yaml": y, "st": s, "want": want})
    # seeded documents with more simultaneous faults (outside TLC's bound), judged by the same reference
    import itertools
    classes = {"version": ["ok", "absent", "empty", "bad", "mistyped"], "pfcp": ["ok", "absent"], "addr": ["ok", "absent", "empty", "bad", "mistyped"],
               "nodeid": ["ok", "absent", "empty", "bad", "mistyped", "unresolvable"], "rt": ["ok", "absent", "zero", "mistyped"],
               "maxrt": ["ok", "absent", "range", "mistyped"], "gtpu": ["ok", "absent"], "fwd": ["ok", "absent", "empty", "bad", "mistyped"],
               "iflist": ["absent", "empty", "ok1", "ok2", "okbadaddr", "okbadtype", "notype", "noaddr"],
               "dnn": ["absent", "empty", "ok1", "ok2", "okbadcidr", "badcidr", "nodnn", "nocidr"], "logger": ["ok", "absent"],
               "level": ["ok", "absent", "empty", "bad", "mistyped"]}
    good = {"version": "ok", "pfcp": "ok", "addr": "ok", "nodeid": "ok", "rt": "ok", "maxrt": "ok", "gtpu": "ok", "fwd": "ok", "iflist": "ok1", "dnn": "ok1", "logger": "ok", "level": "ok"}
    for i in range(20000 if thorough else 3000):
        s = dict(good)
        for f in rng.sample(sorted(classes), rng.randint(0, 5)):
            s[f] = rng.choice(classes[f])
        if s["pfcp"] == "absent":
            s.update(addr="ok", nodeid="ok", rt="ok", maxrt="ok")
        if s["gtpu"] == "absent":
            s.update(fwd="ok", iflist="ok1")
        if s["logger"] == "absent":
            s["level"] = "ok"
        y, want = cfg_render(s, rng)
        inputs.append({"id": "rnd-%d" % i, "yaml": y, "st": s, "want": want})
    fout, info = vlib.run_l0(binary, "TestVerifConfig", inputs, "c20")
    if info["rc"] != 0:
        raise Infra("config executor failed: " + info["tail"])
    outs = vlib.read_ndjson(fout)
    if len(outs) != len(inputs):
        raise Infra("config executor: %d of %d documents read" % (len(outs), len(inputs)))
    byid = {i["id"]: i for i in inputs}
    viols = judge_l0(pid, outs, "Trace_Config", mods, "c20")
    n = report_l0(pid, viols, lambda v: {"property": pid, "kind": "config", "tags": v["tags"], "vector": byid[v["line"]["id"]], "recorded": v["line"]})
    acc = sum(1 for o in outs if o["accepted"])
    cov = {"states": st["distinct"], "transitions": st["generated"], "traces_validated_against_impl": len(outs),
           "samples": [{"st": o["st"], "accepted": o["accepted"]} for o in (outs[0], outs[len(outs) // 3], outs[-1])] + [{"yaml": inputs[7]["yaml"]}],
           "max_faults_exhaustive": k, "documents_accepted": acc, "documents_rejected": len(outs) - acc, "random_documents": len(inputs) - reps * len(states),
           "exhaustive": False, "checker_cmd": "tlc MC_Config.tla (INVARIANT RefSane); tlc Trace_Config.tla",
           "not_covered_here": "gtp5g version window (decided by the simulated-netlink part of this check when present)"}
    vlib.write_evidence(pid, "model_checking", cov, time.time() - t0, n, [
        "Config.tla transcribes the statement; documents it is silent on (no interface list, no DNN list, retry count out of range) are not judged",
        "node-id resolution uses IP literals and localhost only (sandbox has no DNS); 'no-such-host.invalid' must not resolve"])
    return 1 if n else 0


REGISTRY["C20"] = check_c20


# ---------------------------------------------------------------------------------------------- C02 / C03 rules, C20 version

RULE_MODS = ["FlowDesc.tla", "RuleXlate.tla"]


def rules_vectors(kinds, thorough, rng):
    import gen_rules
    structs, states = [], 0

    def one(k):
        cfg = 'SPECIFICATION Spec\nCONSTANTS\n K = "%s"\nINVARIANT OrderFree\nINVARIANT RefSane\nCHECK_DEADLOCK FALSE\n' % k
        return vlib.tlc_vectors("MC_Rules.tla", "MC.cfg", RULE_MODS, "rules-" + k, cfg_text=cfg, workers=4)
    with cf.ThreadPoolExecutor(len(kinds)) as ex:
        for vs, st in ex.map(one, kinds):
            structs += vs
            states += st["distinct"]
    vecs = []
    reps = 4 if thorough else 1
    for i, s in enumerate(structs):
        for j in range(reps + (1 if s["kind"] in ("bar", "far", "qer") else 0)):
            order = ["keep", "rev", "shuffle", "shuffle", "shuffle"][(i + j) % 5]
            vecs.append(gen_rules.vector("mc-%s-%d-%d" % (s["kind"], i, j), s, rng, order))
    return vecs, states, len(structs)


def run_rules(pid, vecs, name):
    binary = vlib.build_test_binary("internal/forwarder")
    nproc = max(1, min(8, len(vecs) // 500 + 1))
    chunks = [vecs[i::nproc] for i in range(nproc)]

    def work(i):
        fout, info = vlib.run_l0(binary, "TestVerifRules", chunks[i], "%s-%d" % (name, i))
        outs = vlib.read_ndjson(fout)
        died = None
        if info["rc"] != 0:
            if "INFRA:" in info["tail"]:
                raise Infra("rules executor: " + info["tail"][-1500:])
            died = chunks[i][len(outs)] if len(outs) < len(chunks[i]) else chunks[i][-1]
        return outs, died, info
    outs, viols = [], []
    with cf.ThreadPoolExecutor(nproc) as ex:
        for o, died, info in ex.map(work, range(nproc)):
            outs += o
            if died is not None:
                k = died["meta"].get("st", {}).get("kind", "")
                tagp = "C02" if k in ("pdr", "far") else "C03"
                viols.append({"tr": died["id"], "i": 0, "tags": ["%s:the driver process died on a well-formed IE: %s" % (tagp, info["tail"][-300:])], "line": died})
    viols += judge_l0(pid, outs, "Trace_Rules", RULE_MODS, name)
    return outs, viols


def check_rules(pid, replay=None):
    import random
    import gen_rules
    t0 = time.time()
    thorough = vlib.tier() == "thorough"
    kinds = ["pdr", "far"] if pid == "C02" else ["qer", "urr", "bar"]
    if replay:
        with open(replay) as fh:
            vec = json.load(fh)["vector"]
        outs, viols = run_rules(pid, [vec], pid + "-replay")
        if any(t.startswith(pid + ":") for v in viols for t in v["tags"]):
            print("VIOLATION property=%s replay=%s" % (pid, replay))
            return 1
        log("replay: accepted on the current tree")
        return 0
    rng = random.Random(vlib.seed())
    vecs, states, nstruct = rules_vectors(kinds, thorough, rng)
    log("MC_Rules: %d structures of %s enumerated by TLC (translation order-independent on all), %d concrete vectors" % (nstruct, "/".join(kinds), len(vecs)))
    byid = {v["id"]: v for v in vecs}
    outs, viols = run_rules(pid, vecs, pid)
    n = report_l0(pid, viols, lambda v: {"property": pid, "kind": "rules", "tags": v["tags"], "vector": byid.get(v["line"]["id"], v["line"]), "recorded": v["line"]})
    nreq = sum(len(s["reqs"]) for o in outs for s in o["steps"])
    ex = outs[len(outs) // 2]
    cov = {"states": states, "transitions": states, "traces_validated_against_impl": len(outs),
           "samples": [{"fn": ex["in"][0]["fn"], "seid": ex["seid"], "tree": ex["in"][0]["tree"], "leaves": ex["steps"][0]["reqs"][-1]["leaves"] if ex["steps"][0]["reqs"] else []}],
           "structures": nstruct, "concrete_instances": len(vecs), "netlink_requests_decoded": nreq, "exhaustive": False,
           "checker_cmd": "tlc MC_Rules.tla (INVARIANT OrderFree, RefSane) per kind; tlc Trace_Rules.tla"}
    vlib.write_evidence(pid, "model_checking", cov, time.time() - t0, n, [
        "RuleXlate.tla states the translation on octets (TS 29.244 IE layouts, gtp5g genl attribute numbers shared with the driver via go-gtp5gnl constants)",
        "the real driver runs against a simulated gtp5g netlink endpoint; requests are decoded by the simulator's own attribute walker",
        "TLC enumerates structure; values are boundary classes and seeded random octets chosen by the harness (concrete_instances)",
        "measurement-period attribute and TTC/SPI/FL placeholders are outside the statement"])
    return 1 if n else 0


def check_rules_full(pid, replay=None):
    """translation at the driver (RuleXlate on octets) + hand-over at the PFCP level: an accepted request's Create IE and its
    Update IE for a rule the data plane holds must reach the data plane (Mon!VForward), also after failed calls"""
    if replay:
        with open(replay) as fh:
            doc = json.load(fh)
        if doc.get("kind") == "l1":
            return replay_l1(pid, replay, vlib.build_test_binary("internal/pfcp"))
        return check_rules(pid, replay)
    rc = check_rules(pid, None)
    thorough = vlib.tier() == "thorough"
    seed = vlib.seed()
    binary = vlib.build_test_binary("internal/pfcp")
    rnd = gen_l1.lifecycle(seed, 1200 if thorough else 100) + gen_l1.usage(seed, 600 if thorough else 60, pfault=0.1)
    log("executing %d random histories (rule life-cycles with failing data-plane calls) on the real PfcpServer: hand-over of Create / Update IEs" % len(rnd))
    viols, st = execute_and_judge(binary, rnd, kbase(pid), pid + "-fw")
    n = report_violations(pid, viols, st["crashes"], "L1 hand-over")
    if st["crashes"] and not n:
        raise Infra("L1 executor died: %s" % st["crashes"][0]["tail"][-1500:])
    if pid == "C03":
        # "a URR whose triggers include periodic reporting is in addition registered for periodic querying": over sessions that
        # share periods and come and go (full stack, MonL2!VTick C03 clause) ...
        mc2, sc2, rnd2, v2, st2 = l2_part(pid, "Perio", 6 if thorough else 5, "periodic", 800 if thorough else 100, 400 if thorough else 40)
        n += report_violations(pid, v2, st2["crashes"], "L2 family Perio")
        # ... and also when hundreds of them are created while the periodic server is busy
        nrt, _ = realtime_part(pid, "regflood", 1, kbase(pid), accept=("C15:URRs with the periodic trigger were created",))
        n += nrt
    p = os.path.join(vlib.VERIF, "evidence", pid + ".json")
    with open(p) as fh:
        ev = json.load(fh)
    ev["coverage"].update({"l1_histories": len(rnd), "l1_events_executed_on_impl": st["events"],
                           "l1_monitor": "Mon!VForward: Create / Update IEs of accepted requests reach the data plane for the addressed session and rule"})
    ev["coverage"]["traces_validated_against_impl"] = ev["coverage"].get("traces_validated_against_impl", 0) + st["traces"]
    ev["violations"] = ev.get("violations", 0) + n
    with open(p, "w") as fh:
        json.dump(ev, fh, indent=1)
    return 1 if (rc or n) else 0


REGISTRY["C02"] = check_rules_full
REGISTRY["C03"] = check_rules_full


_check_c20_config = check_c20


def check_c20_full(pid, replay=None):
    """configuration part (Config.tla) + gtp5g version window against the simulated GET_VERSION"""
    import random
    import gen_rules
    if replay:
        with open(replay) as fh:
            doc = json.load(fh)
        if doc.get("kind") == "rules":
            outs, viols = run_rules(pid, [doc["vector"]], pid + "-replay")
            if any(t.startswith("C20:") for v in viols for t in v["tags"]):
                print("VIOLATION property=%s replay=%s" % (pid, replay))
                return 1
            log("replay: accepted on the current tree")
            return 0
        return _check_c20_config(pid, replay)
    rc = _check_c20_config(pid, None)
    vecs = gen_rules.version_vectors(random.Random(vlib.seed()), 0)
    byid = {v["id"]: v for v in vecs}
    outs, viols = run_rules(pid, vecs, "c20ver")
    n = report_l0(pid, viols, lambda v: {"property": pid, "kind": "rules", "tags": v["tags"], "vector": byid.get(v["line"]["id"], v["line"]), "recorded": v["line"]})
    # extend the evidence written by the configuration part
    p = os.path.join(vlib.VERIF, "evidence", pid + ".json")
    with open(p) as fh:
        ev = json.load(fh)
    ev["coverage"]["version_strings_checked"] = len(vecs)
    ev["coverage"]["traces_validated_against_impl"] += len(outs)
    ev["coverage"].pop("not_covered_here", None)
    ev["violations"] = ev.get("violations", 0) + n
    with open(p, "w") as fh:
        json.dump(ev, fh, indent=1)
    return 1 if (rc or n) else 0


REGISTRY["C20"] = check_c20_full


# ============================================================================================== L2 (full stack on the simulated kernel)

L2_MODULES = ["Flags.tla", "MonL2.tla", "UpfL2.tla", "MC_L2.tla"]
L2_CFG = {
    "Buffer": """  Periods = {10}
  Kinds = {"assoc", "estbuf", "del", "kbuf", "mod"}
""",
    "Perio": """  Periods = {10, 20}
  Kinds = {"assoc", "estper", "del", "tick", "rmurr", "krep", "addurr"}
""",
}
PKT_SCALE = 256     # one model packet = 256 real packets; model QCap 2 = 512 real


def mc_generate_l2(family, turns, name, sample_mod=1, sample_key=0, max_edges=None):
    d = vlib.stage_spec(L2_MODULES, "mcl2-" + name)
    cfg = ("SPECIFICATION Spec\nCONSTANTS\n  QCap = 2\n  MaxTurns = %d\n%s  SampleMod = %d\n  SampleKey = %d\n"
           "INVARIANT NoVerdict\nVIEW View\nACTION_CONSTRAINT Emit\nCHECK_DEADLOCK FALSE\n") % (turns, L2_CFG[family], sample_mod, sample_key)
    with open(os.path.join(d, "MC.cfg"), "w") as fh:
        fh.write(cfg)
    cmd = ["tlc", "-workers", str(vlib.NCPU), "-metadir", os.path.join(d, "md"), "-config", "MC.cfg", "MC_L2.tla"]
    t0 = time.time()
    edges, tail, nedges = [], [], 0
    p = subprocess.Popen(cmd, cwd=d, env=vlib._tlc_env(heap="8g"), stdout=subprocess.PIPE, stderr=subprocess.STDOUT, text=True)
    for ln in p.stdout:
        ln = ln.rstrip("\n")
        m = EDGE_RE.match(ln)
        if m:
            nedges += 1
            if max_edges is None or len(edges) < max_edges:
                try:
                    edges.append(json.loads(json.loads('"' + m.group(1) + '"')))
                except ValueError:
                    pass
            continue
        tail.append(ln)
        tail = tail[-300:]
    p.wait()
    out = "\n".join(tail)
    m = re.search(r"(\d+) states generated, (\d+) distinct states found", out)
    if p.returncode != 0 or "No error has been found" not in out or not m:
        raise Infra("model checking of the full-stack ideal model failed (%s):\n%s" % (family, out[-3500:]))
    return {"generated": int(m.group(1)), "distinct": int(m.group(2)), "edges_printed": nedges, "edges": edges, "wall": time.time() - t0, "cfg": cfg}


def l2_script(sid, hist):
    import gen_l2
    evs = [gen_l2.x(gen_l1.ev("init", maxrt=1))]
    for e in hist:
        e = dict(e)
        if e["t"] == "kbuf":
            e["n"] = e["n"] * PKT_SCALE
            e["base"] = e["base"] * PKT_SCALE
        evs.append(e)
    return {"id": sid, "events": evs}


def execute_and_judge_l2(binary, scripts, k0, name, nproc=None):
    nproc = max(1, min(nproc or 10, len(scripts)))
    chunks = [scripts[i::nproc] for i in range(nproc)]
    byid = {s["id"]: s for s in scripts}

    def work(i):
        fout, info = vlib.run_l1(binary, chunks[i], k0 + i, "%s-%d" % (name, i), test="TestVerifL2", timeout=3000)
        lines = vlib.read_ndjson(fout)
        crashed = None
        if info["rc"] != 0:
            if "INFRA:" in info["tail"]:
                raise Infra("L2 executor: " + info["tail"][-1500:])
            crashed = {"rc": info["rc"], "tail": info["tail"][-3000:], "tr": lines[-1]["tr"] if lines else chunks[i][0]["id"]}
        doc = vlib.tlc_trace(fout, "%s-%d" % (name, i), spec="Trace_L2", modules=("MonL2.tla", "Flags.tla")) if lines else {"viol": []}
        idx = {(ln["tr"], ln["i"]): ln for ln in lines}
        return ([{"tr": v["tr"], "i": v["i"], "tags": sorted(v["tags"]), "line": idx.get((v["tr"], v["i"]))} for v in doc["viol"]],
                len(lines), len({ln["tr"] for ln in lines}), crashed, doc.get("div", []), doc.get("compared", 0))
    viols, nlines, ntraces, crashes, divs, ncmp = [], 0, 0, [], [], 0
    with cf.ThreadPoolExecutor(nproc) as ex:
        for v, nl, nt, cr, dv, nc in ex.map(work, range(nproc)):
            viols += v
            nlines += nl
            ntraces += nt
            divs += dv
            ncmp += nc
            if cr:
                crashes.append(cr)
    # lock-step with the full-stack ideal model: informational, never a verdict
    bad = {v["tr"] for v in viols}
    divs = [d for d in divs if d["tr"] not in bad]
    for d in divs[:5]:
        log("SPEC-DIVERGENCE (UpfL2 vs. the real stack) trace %s line %d (%s): %s\n    model: %s\n    code:  %s" % (
            d["tr"], d["i"], d["t"], d["what"], json.dumps(d.get("model"))[:700], json.dumps(d.get("code"))[:700]))
    for v in viols:
        v["script"] = byid.get(v["tr"])
        if v["line"]:
            v["line"] = {k: (x if k not in ("pkts", "gpdu") else x[:8]) for k, x in v["line"].items()}
    return viols, {"events": nlines, "traces": ntraces, "crashes": crashes, "lockstep_compared": ncmp, "lockstep_divergences": len(divs)}


L2_PLAN = {"C13": ("Buffer", 4, 5, "buffering"), "C15": ("Perio", 5, 6, "periodic")}


def l2_part(pid, family, turns, gen, n_edges, n_rand, kofs=0):
    import random
    import gen_l2
    seed = vlib.seed()
    binary = vlib.build_test_binary("internal/pfcp")
    mc = mc_generate_l2(family, turns, pid)
    log("MC_L2 %s turns=%d: %d distinct states, %d transitions (all monitors hold on the ideal model) in %.0fs" % (
        family, turns, mc["distinct"], mc["generated"], mc["wall"]))
    edges = mc["edges"]
    rng = random.Random(seed)
    if len(edges) > n_edges:
        # prefer the longest paths (they contain the shorter ones as prefixes), seeded choice among them
        edges.sort(key=len, reverse=True)
        top = edges[:max(n_edges * 4, n_edges)]
        edges = rng.sample(top, n_edges)
    scripts = [l2_script("mc-%s-%d" % (family, i), h) for i, h in enumerate(edges)]
    rnd = getattr(gen_l2, gen)(seed, n_rand)
    log("executing %d model paths and %d random histories on the real stack (PFCP server + gtp5g driver + periodic server + buffering listener on the simulated kernel)" % (len(scripts), len(rnd)))
    v1, s1 = execute_and_judge_l2(binary, scripts, kbase(pid) + kofs, pid + "-mc")
    v2, s2 = execute_and_judge_l2(binary, rnd, kbase(pid) + kofs, pid + "-rnd")
    return mc, scripts, rnd, v1 + v2, {"events": s1["events"] + s2["events"], "traces": s1["traces"] + s2["traces"], "crashes": s1["crashes"] + s2["crashes"],
                                       "lockstep_compared": s1["lockstep_compared"], "lockstep_divergences": s1["lockstep_divergences"]}


def check_l2(pid, replay=None):
    t0 = time.time()
    thorough = vlib.tier() == "thorough"
    family, tq, tt, gen = L2_PLAN[pid]
    if replay:
        binary = vlib.build_test_binary("internal/pfcp")
        with open(replay) as fh:
            doc = json.load(fh)
        viols, st = execute_and_judge_l2(binary, [doc["script"]], kbase(pid) + 9, pid + "-replay", nproc=1)
        for v in viols:
            log("line %d: %s" % (v["i"], v["tags"]))
        if st["crashes"] or any(t.startswith(pid + ":") for v in viols for t in v["tags"]):
            print("VIOLATION property=%s replay=%s" % (pid, replay))
            return 1
        log("replay: no verdict for %s on the current tree" % pid)
        return 0
    mc, scripts, rnd, viols, st = l2_part(pid, family, tt if thorough else tq, gen, 3000 if thorough else 250, 1500 if thorough else 60)
    nviol = report_violations(pid, viols, st["crashes"], "L2 family %s" % family)
    if st["crashes"] and not nviol:
        raise Infra("L2 executor died: %s" % st["crashes"][0]["tail"][-1500:])
    others = others_summary(pid, viols)
    if others:
        log("note: verdicts of other properties seen in the same executions: %s" % json.dumps(others))
    cov = {"states": mc["distinct"], "transitions": mc["generated"], "traces_validated_against_impl": st["traces"],
           "samples": [brief(scripts[0]), brief(rnd[0])[:10]], "mc_family": family, "mc_constants": mc["cfg"],
           "edges_total": mc["edges_printed"], "edges_replayed": len(scripts), "random_histories": len(rnd),
           "events_executed_on_impl": st["events"], "packet_scale": PKT_SCALE, "exhaustive": False,
           "lockstep_steps_compared_with_ideal_model": st["lockstep_compared"], "lockstep_divergences": st["lockstep_divergences"],
           "checker_cmd": "tlc MC_L2.tla (INVARIANT NoVerdict, ACTION_CONSTRAINT Emit); tlc Trace_L2.tla (QCap = 512)",
           "verdicts_of_other_properties": others}
    vlib.write_evidence(pid, "model_checking", cov, time.time() - t0, nviol, [
        "simulated gtp5g kernel (internal/zzverif/simk) in place of the module; go-pfcp as codec of the simulated SMFs; an independent G-PDU reader at the simulated gNBs",
        "one model packet stands for %d real packets, the model's capacity 2 for the implementation's 512" % PKT_SCALE,
        "histories put FAR ID first in Update FAR and keep the FAR's tunnel parameters defined before a release (the quantifier); the release may use the tunnel parameters before or after the update"])
    return 1 if nviol else 0


REGISTRY["C13"] = check_l2


def check_c15_full(pid, replay=None):
    """injected ticks on the full stack (exhaustive model paths, random histories) + one scenario with the REAL period tickers"""
    if replay:
        with open(replay) as fh:
            doc = json.load(fh)
        if doc.get("kind") == "realtime":
            return replay_realtime(pid, doc)
        return check_l2(pid, replay)
    rc = check_l2(pid, None)
    n, notes = realtime_part(pid, "tickfail", 2 if vlib.tier() == "thorough" else 1, kbase(pid))
    n2, notes2 = realtime_part(pid, "regflood", 1, kbase(pid))
    n, notes = n + n2, notes + notes2
    p = os.path.join(vlib.VERIF, "evidence", pid + ".json")
    with open(p) as fh:
        ev = json.load(fh)
    ev["coverage"]["realtime_scenarios"] = notes
    ev["violations"] = ev.get("violations", 0) + n
    with open(p, "w") as fh:
        json.dump(ev, fh, indent=1)
    return 1 if (rc or n) else 0


REGISTRY["C15"] = check_c15_full

_check_l1_c10 = REGISTRY["C10"]


def check_c10_full(pid, replay=None):
    """PFCP-level routing / values (L1) + the kernel multicast path through the real buffering listener (L2)"""
    if replay:
        with open(replay) as fh:
            doc = json.load(fh)
        if doc.get("note", "").startswith("L2"):
            L2_PLAN["C10"] = L2_PLAN["C15"]
            return check_l2(pid, replay)
        return _check_l1_c10(pid, replay)
    rc = _check_l1_c10(pid, None)
    thorough = vlib.tier() == "thorough"
    mc, scripts, rnd, viols, st = l2_part(pid, "Perio", 6 if thorough else 5, "periodic", 2000 if thorough else 200, 1200 if thorough else 60)
    n = report_violations(pid, viols, st["crashes"], "L2 family Perio")
    if st["crashes"] and not n:
        raise Infra("L2 executor died: %s" % st["crashes"][0]["tail"][-1500:])
    p = os.path.join(vlib.VERIF, "evidence", pid + ".json")
    with open(p) as fh:
        ev = json.load(fh)
    ev["coverage"]["l2_states"] = mc["distinct"]
    ev["coverage"]["l2_transitions"] = mc["generated"]
    ev["coverage"]["l2_traces_validated_against_impl"] = st["traces"]
    ev["coverage"]["traces_validated_against_impl"] += st["traces"]
    ev["coverage"]["l2_events_executed_on_impl"] = st["events"]
    ev["violations"] = ev.get("violations", 0) + n
    with open(p, "w") as fh:
        json.dump(ev, fh, indent=1)
    return 1 if (rc or n) else 0


REGISTRY["C10"] = check_c10_full

def alloc_proof():
    """C04, issuing part: SeidAlloc.tla - inductive invariant with Apalache (histories of any length, capacity 6) and the
    same invariants with TLC on all reachable states (capacity 5). A failure here is a defect of the specification."""
    d = vlib.stage_spec(["SeidAlloc.tla", "SeidAllocInd.tla", "MC_SeidAlloc.tla", "SeidAllocProof.tla"], "alloc")
    with open(os.path.join(d, "MC.cfg"), "w") as fh:
        fh.write("SPECIFICATION Spec\nCONSTANT N = 5\nINVARIANT IndInv\nINVARIANT Bounded\nPROPERTY IssueOkProp\nCHECK_DEADLOCK FALSE\n")
    p = subprocess.run(["tlc", "-workers", "4", "-metadir", os.path.join(d, "md"), "-config", "MC.cfg", "MC_SeidAlloc.tla"], cwd=d, env=vlib._tlc_env(),
                       stdout=subprocess.PIPE, stderr=subprocess.STDOUT, text=True, timeout=900)
    m = re.search(r"(\d+) states generated, (\d+) distinct states found", p.stdout)
    if p.returncode != 0 or "No error has been found" not in p.stdout or not m:
        raise Infra("TLC on SeidAlloc failed:\n" + p.stdout[-2500:])
    res = {"tlc_distinct": int(m.group(2)), "tlc_generated": int(m.group(1)), "apalache": []}
    obligations = [("base: Init => IndInv", "Init", "IndInv", 0), ("step: IndInv /\\ Next => IndInv'", "IndInit", "IndInv", 1),
                   ("action: IndInv /\\ Next => IssueOk", "IndInit", "IssueOk", 1), ("consequence: IndInv => Bounded", "IndInit", "Bounded", 0)]

    def one(ob):
        name, init, inv, length = ob
        out = os.path.join(d, "ap-%s-%s" % (init, inv))
        q = subprocess.run(["apalache-mc", "check", "--out-dir=" + out, "--cinit=CInit", "--init=" + init, "--inv=" + inv, "--length=%d" % length,
                            "SeidAllocInd.tla"], cwd=d, env=dict(os.environ, TMPDIR=vlib.sub("jtmp")),   # the launcher makes its SANY directory with mktemp -t
                           stdout=subprocess.PIPE, stderr=subprocess.STDOUT, text=True, timeout=900)
        return name, q.returncode, q.stdout[-1500:]
    def proof():
        q = subprocess.run(["tlapm", "--threads", "4", "--cache-dir", os.path.join(d, "tlacache"), "SeidAllocProof.tla"], cwd=d,
                           stdout=subprocess.PIPE, stderr=subprocess.STDOUT, text=True, timeout=1500)
        m = re.search(r"All (\d+) obligations proved", q.stdout)
        if q.returncode != 0 or not m:
            raise Infra("tlapm did not prove SeidAllocProof.tla:\n" + q.stdout[-2500:])
        return int(m.group(1))
    with cf.ThreadPoolExecutor(5) as ex:
        fut = ex.submit(proof)
        for name, rc, tail in ex.map(one, obligations):
            if rc != 0 or "EXITCODE: OK" not in tail:
                raise Infra("Apalache did not discharge '%s' for SeidAlloc:\n%s" % (name, tail))
            res["apalache"].append(name)
        res["tlaps_obligations_proved"] = fut.result()
    log("SeidAlloc: TLAPS proved IndInv inductive and IssueOk for every capacity (%d obligations); Apalache discharged %d obligations (capacity 6); TLC: %d distinct states (capacity 5)" % (
        res["tlaps_obligations_proved"], len(res["apalache"]), res["tlc_distinct"]))
    return res


_check_l1_c04 = REGISTRY["C04"]


def check_c04_full(pid, replay=None):
    if replay:
        return _check_l1_c04(pid, replay)
    proof = alloc_proof()
    rc = _check_l1_c04(pid, None)
    p = os.path.join(vlib.VERIF, "evidence", pid + ".json")
    with open(p) as fh:
        ev = json.load(fh)
    ev["coverage"]["allocator_inductive_invariant"] = proof
    ev.setdefault("trusted_base", [])
    with open(p, "w") as fh:
        json.dump(ev, fh, indent=1)
    return rc


REGISTRY["C04"] = check_c04_full

_check_l1_c01 = REGISTRY["C01"]


def check_c01_full(pid, replay=None):
    """PFCP level with the recording data plane (L1) + the same statement at the kernel boundary (L2): the rule tables of
    the simulated gtp5g module after every step against the rules live sessions have requested (MonL2!VKernel)"""
    if replay:
        with open(replay) as fh:
            doc = json.load(fh)
        if doc.get("note", "").startswith("L2"):
            L2_PLAN["C01"] = L2_PLAN["C15"]
            return check_l2(pid, replay)
        return _check_l1_c01(pid, replay)
    rc = _check_l1_c01(pid, None)
    thorough = vlib.tier() == "thorough"
    n, add = 0, {"l2_states": 0, "l2_transitions": 0, "l2_traces_validated_against_impl": 0, "l2_events_executed_on_impl": 0}
    for family, turns, gen in (("Perio", 6 if thorough else 5, "periodic"), ("Buffer", 5 if thorough else 4, "buffering")):
        mc, scripts, rnd, viols, st = l2_part(pid, family, turns, gen, 1500 if thorough else 150, 800 if thorough else 40)
        k = report_violations(pid, viols, st["crashes"], "L2 family %s" % family)
        if st["crashes"] and not k:
            raise Infra("L2 executor died: %s" % st["crashes"][0]["tail"][-1500:])
        n += k
        add["l2_states"] += mc["distinct"]
        add["l2_transitions"] += mc["generated"]
        add["l2_traces_validated_against_impl"] += st["traces"]
        add["l2_events_executed_on_impl"] += st["events"]
    p = os.path.join(vlib.VERIF, "evidence", pid + ".json")
    with open(p) as fh:
        ev = json.load(fh)
    ev["coverage"].update(add)
    ev["coverage"]["traces_validated_against_impl"] += add["l2_traces_validated_against_impl"]
    ev["coverage"]["l2_monitor"] = "MonL2!VKernel: kernel rule tables after every step = rules requested by live sessions"
    ev["violations"] = ev.get("violations", 0) + n
    with open(p, "w") as fh:
        json.dump(ev, fh, indent=1)
    return 1 if (rc or n) else 0


REGISTRY["C01"] = check_c01_full

_check_l1_c06 = REGISTRY["C06"]


def check_c06_full(pid, replay=None):
    """injected expiries at L1 (every interleaving the model has) + one scenario with the REAL retention timers"""
    if replay:
        with open(replay) as fh:
            doc = json.load(fh)
        if doc.get("kind") == "realtime":
            return replay_realtime(pid, doc)
        return _check_l1_c06(pid, replay)
    rc = _check_l1_c06(pid, None)
    n, notes = realtime_part(pid, "retain", 3 if vlib.tier() == "thorough" else 1, kbase(pid))
    n2, notes2 = realtime_part(pid, "rxflood", 2 if vlib.tier() == "thorough" else 1, kbase(pid))
    n, notes = n + n2, notes + notes2
    p = os.path.join(vlib.VERIF, "evidence", pid + ".json")
    with open(p) as fh:
        ev = json.load(fh)
    ev["coverage"]["realtime_scenarios"] = notes
    ev["violations"] = ev.get("violations", 0) + n
    with open(p, "w") as fh:
        json.dump(ev, fh, indent=1)
    return 1 if (rc or n) else 0


REGISTRY["C06"] = check_c06_full

_check_l1_c09 = REGISTRY["C09"]


def check_c09_full(pid, replay=None):
    """injected expiries at L1 + one scenario with the REAL retransmission timers while the loop is busy"""
    if replay:
        with open(replay) as fh:
            doc = json.load(fh)
        if doc.get("kind") == "realtime":
            return replay_realtime(pid, doc)
        return _check_l1_c09(pid, replay)
    rc = _check_l1_c09(pid, None)
    n, notes = realtime_part(pid, "txstall", 2 if vlib.tier() == "thorough" else 1, kbase(pid))
    p = os.path.join(vlib.VERIF, "evidence", pid + ".json")
    with open(p) as fh:
        ev = json.load(fh)
    ev["coverage"]["realtime_scenarios"] = notes
    ev["violations"] = ev.get("violations", 0) + n
    with open(p, "w") as fh:
        json.dump(ev, fh, indent=1)
    return 1 if (rc or n) else 0


REGISTRY["C09"] = check_c09_full

_check_c19_pure = REGISTRY["C19"]


def check_c19_full(pid, replay=None):
    """the flag codecs as functions (TS 29.244 tables, TLC-enumerated words) + the cause -> trigger mapping where the data plane
    really delivers causes: REPORT multicasts with several reports of different causes through the real buffering listener"""
    if replay:
        with open(replay) as fh:
            doc = json.load(fh)
        if doc.get("note", "").startswith("L2"):
            L2_PLAN["C19"] = L2_PLAN["C15"]
            return check_l2(pid, replay)
        return _check_c19_pure(pid, replay)
    rc = _check_c19_pure(pid, None)
    thorough = vlib.tier() == "thorough"
    mc, scripts, rnd, viols, st = l2_part(pid, "Perio", 6 if thorough else 5, "periodic", 1000 if thorough else 100, 600 if thorough else 50)
    n = report_violations(pid, viols, st["crashes"], "L2 family Perio")
    if st["crashes"] and not n:
        raise Infra("L2 executor died: %s" % st["crashes"][0]["tail"][-1500:])
    # apply-action words with further flags next to BUFF / NOCP in buffered-packet notifications (full stack, Buffer family)
    mcb, scb, rndb, vb, stb = l2_part(pid, "Buffer", 4, "buffering", 400 if thorough else 60, 300 if thorough else 40)
    n += report_violations(pid, vb, stb["crashes"], "L2 family Buffer")
    # the flags the control plane derives from the Measurement Information the SMF set (MNOP -> packet counts), after Create
    # and after Update URR: usage histories at the PFCP level (Mon!VFlagsOf)
    binary = vlib.build_test_binary("internal/pfcp")
    us = gen_l1.usage(vlib.seed(), 400 if thorough else 60)
    v3, s3 = execute_and_judge(binary, us, kbase(pid), pid + "-mi")
    n += report_violations(pid, v3, s3["crashes"], "L1 usage")
    p = os.path.join(vlib.VERIF, "evidence", pid + ".json")
    with open(p) as fh:
        ev = json.load(fh)
    ev["coverage"].update({"l2_states": mc["distinct"], "l2_transitions": mc["generated"], "l2_traces_validated_against_impl": st["traces"],
                           "l2_events_executed_on_impl": st["events"], "l1_usage_histories": len(us),
                           "l2_monitor": "MonL2!VKrep (C19 clause): cause of every kernel report vs. trigger of the forwarded usage report; Mon!VFlagsOf: MNOP -> volume-measurement flags"})
    ev["coverage"]["traces_validated_against_impl"] = ev["coverage"].get("traces_validated_against_impl", 0) + st["traces"]
    ev["violations"] = ev.get("violations", 0) + n
    with open(p, "w") as fh:
        json.dump(ev, fh, indent=1)
    return 1 if (rc or n) else 0


REGISTRY["C19"] = check_c19_full

_check_c14_pure = REGISTRY["C14"]


def check_c14_full(pid, replay=None):
    """the encoder as a function (reference G-PDU, TLC-enumerated vectors) + the packets the full stack really re-injects
    (Gtp5g.WritePacket on release), read at the simulated gNB sockets by an independent decoder (MonL2!VGpdu)"""
    if replay:
        with open(replay) as fh:
            doc = json.load(fh)
        if doc.get("note", "").startswith("L2"):
            L2_PLAN["C14"] = L2_PLAN["C13"]
            return check_l2(pid, replay)
        return _check_c14_pure(pid, replay)
    rc = _check_c14_pure(pid, None)
    thorough = vlib.tier() == "thorough"
    mc, scripts, rnd, viols, st = l2_part(pid, "Buffer", 5 if thorough else 4, "buffering", 1500 if thorough else 120, 600 if thorough else 40)
    n = report_violations(pid, viols, st["crashes"], "L2 family Buffer")
    if st["crashes"] and not n:
        raise Infra("L2 executor died: %s" % st["crashes"][0]["tail"][-1500:])
    p = os.path.join(vlib.VERIF, "evidence", pid + ".json")
    with open(p) as fh:
        ev = json.load(fh)
    ev["coverage"].update({"l2_states": mc["distinct"], "l2_transitions": mc["generated"], "l2_traces_validated_against_impl": st["traces"],
                           "l2_events_executed_on_impl": st["events"],
                           "l2_monitor": "MonL2!VGpdu: every G-PDU read at the simulated gNB sockets (well-formed by its flags, T-PDU = a packet handed up, PDU Session Container / QFI of the flow)"})
    ev["coverage"]["traces_validated_against_impl"] = ev["coverage"].get("traces_validated_against_impl", 0) + st["traces"]
    ev["violations"] = ev.get("violations", 0) + n
    with open(p, "w") as fh:
        json.dump(ev, fh, indent=1)
    return 1 if (rc or n) else 0


REGISTRY["C14"] = check_c14_full


# ============================================================================================== C07 robustness

MUT_OPS = ["trunc", "hdrlen", "iel", "iet", "drop", "dup", "ieb", "ieb0", "ieb23", "byte", "seid", "mt", "ver", "rand"]
SDFS = ["permit out ip from any to assigned", "permit in 17 from 10.1.2.0/24 80-90 to 8.8.8.8 53", "permit out 6 from any 1,2,3 to 10.0.0.1/8"]


def c07_mutation(rng):
    o = rng.choice(MUT_OPS + ["iel", "ieb", "trunc", "drop", "ieb0", "ieb0", "ieb0", "ieb23", "ieb23"])
    m = {"op": o, "k": rng.randrange(0, 40), "v": 0, "s": "0"}
    if o == "trunc":
        m["v"] = rng.choice([0, 1, 2, 3])
        m["k"] = rng.choice([0, 0, 1, 2, 7, 8, 15, 16, rng.randrange(1, 200)]) if m["v"] == 0 else rng.randrange(0, 40)
    elif o == "hdrlen":
        m["v"] = rng.choice([0, 1, 3, 4, 12, 100, 0xffff, rng.randrange(65536)])
    elif o == "iel":
        m["v"] = rng.choice([-1, -2, -3, -4, 1, 2, 255, 1000])
    elif o == "iet":
        m["v"] = rng.choice([0, 0x7fff, 0xffff, 32768, 1, 2, 3, 20, 21, 23, 44, 56, 60, 84, 93, rng.randrange(65536)])
    elif o == "ieb":
        m["v"] = rng.randrange(0, 16) * 256 + rng.choice([0, 0xff, 1, 2, 4, 8, 16, 0x80, rng.randrange(256)])
    elif o == "ieb0":
        m["v"] = rng.choice([0xff, 0x7f, 0x40, 0x80, 0x3f, 0x1f, 0, rng.randrange(256)])
    elif o == "ieb23":
        m["v"] = rng.choice([0xffff, 0x7fff, 0x0100, 0, rng.randrange(65536)])
    elif o == "byte":
        m["k"] = rng.randrange(0, 400)
        m["v"] = rng.choice([0, 0xff, rng.randrange(256)])
    elif o == "seid":
        m["s"] = str(rng.choice([0, 2 ** 63, 2 ** 64 - 1, 2 ** 32, 999, rng.randrange(2 ** 64)]))
    elif o == "mt":
        m["v"] = rng.choice([0, 1, 3, 5, 7, 8, 9, 12, 50, 51, 52, 53, 54, 55, 56, 57, 99, 255])
    elif o == "ver":
        m["v"] = rng.choice([0, 2, 7])
    elif o == "rand":
        m["k"] = rng.choice([0, 1, 2, 7, 8, 15, 16, 17, 100, 1500, 9000, 65000])
        m["v"] = rng.randrange(1 << 30)
    return m


def c07_rich_ops(rng):
    """IEs that make the gtp5g driver decode something (PDI with SDF filter, forwarding parameters, QER, URR, BAR)"""
    O = gen_l1.op
    return [O("create", "far", 1, aa=rng.choice([2, 12]), teid=rng.randrange(1, 2 ** 31), gnb=1), O("create", "qer", 1, qfi=9),
            O("create", "urr", 1, meth=2, minfo=16), O("create", "bar", 1),
            O("create", "pdr", 1, far=1, qers=[1], urrs=[1], ueip=True, sdf=rng.choice(SDFS))]


def c07_script(sid, prefix, naccepted, rng, nmut, maxrt=1):
    E = gen_l1.ev
    evs = [E("init", maxrt=maxrt)] + [dict(e) for e in prefix]
    seq = 1000
    by = naccepted + 1       # ordinal of the bystander session
    evs.append(E("assoc", peer="p3", seq=seq, node="n3"))
    evs.append(E("est", peer="p3", seq=seq + 1, node="n3", cp="555", ops=c07_rich_ops(rng)))
    evs.append(E("assoc", peer="p4", seq=seq + 2, node="n4"))
    evs.append(E("est", peer="p4", seq=seq + 3, node="n4", cp="777", ops=c07_rich_ops(rng)))
    victim = by + 1
    seq += 10
    for j in range(nmut):
        base = rng.choice(["est", "mod", "mod", "mod", "del", "assoc", "hb", "rptrsp"])
        e = E("mut", peer=rng.choice(["p4", "p1", "q1"]), seq=seq, mbase=base, mut=c07_mutation(rng))
        seq += 1
        if base == "est":
            e.update(node="n4", cp=str(rng.choice([1, 777, 2 ** 64 - 1])), ops=c07_rich_ops(rng))
        elif base == "mod":
            ops = rng.choice([c07_rich_ops(rng),
                              [gen_l1.op("update", "far", 1, aa=2, teid=5, gnb=1), gen_l1.op("update", "pdr", 1, far=1, urrs=[1], sdf=rng.choice(SDFS))],
                              [gen_l1.op("update", "urr", 1, meth=3, minfo=0), gen_l1.op("update", "qer", 1), gen_l1.op("query", "urr", 1)],
                              [gen_l1.op("remove", "pdr", 1), gen_l1.op("remove", "urr", 1)]])
            e.update(sref=rng.choice([victim, victim, 0]), seid="" if rng.random() < 0.8 else str(rng.choice([0, 99, 2 ** 64 - 1])), ops=ops)
        elif base == "del":
            e.update(sref=victim if rng.random() < 0.5 else 0, seid=str(rng.choice([0, 98, 2 ** 63])))
        elif base == "assoc":
            e.update(node=rng.choice(["n4", "n1", "n2"]))
        elif base == "rptrsp":
            e.update(seid=rng.choice(["0", "777", "5"]), seq=rng.randrange(0, 4))
        evs.append(e)
        if j % 5 == 4:
            evs.append(E("hb", peer="p3", seq=seq, tag="probe-hb"))
            seq += 1
    evs.append(E("hb", peer="p3", seq=seq, tag="probe-hb"))
    evs.append(E("mod", peer="p3", seq=seq + 1, sref=by, ops=[gen_l1.op("query", "urr", 1)], tag="probe-mod:n3"))
    evs.append(E("hb", peer="q2", seq=seq + 2, tag="probe-hb"))
    return {"id": sid, "events": evs}


def run_alive(binary, scripts, k0, name, test, nproc=8):
    nproc = max(1, min(nproc, len(scripts)))
    chunks = [scripts[i::nproc] for i in range(nproc)]
    byid = {s["id"]: s for s in scripts}

    def work(i):
        ch = chunks[i]
        if test == "TestVerifL2":
            import gen_l2
            ch = [{"id": s["id"], "events": [gen_l2.x(dict(e)) for e in s["events"]]} for s in ch]
        fout, info = vlib.run_l1(binary, ch, k0 + i, "%s-%d" % (name, i), test=test, timeout=2400)
        lines = vlib.read_ndjson(fout)
        viol = []
        if info["rc"] != 0:
            if "INFRA:" in info["tail"]:
                raise Infra("executor: " + info["tail"][-1500:])
            # the process died: a fault nobody recovered (or a hang) - the script it was working on is the finding
            tr = lines[-1]["tr"] if lines else ch[0]["id"]
            viol.append({"tr": tr, "i": lines[-1]["i"] + 1 if lines else 0, "tags": ["C07:the UPF process died: " + info["tail"][-400:].replace("\n", " | ")],
                         "line": lines[-1] if lines else None})
        if lines:
            doc = vlib.tlc_trace(fout, "%s-%d" % (name, i), spec="Trace_Alive", modules=())
            idx = {(ln["tr"], ln["i"]): ln for ln in lines}
            viol += [{"tr": v["tr"], "i": v["i"], "tags": sorted(v["tags"]), "line": idx.get((v["tr"], v["i"]))} for v in doc["viol"]]
        return viol, len(lines), len({ln["tr"] for ln in lines})
    viols, nl, nt = [], 0, 0
    with cf.ThreadPoolExecutor(nproc) as ex:
        for v, a, b in ex.map(work, range(nproc)):
            viols += v
            nl += a
            nt += b
    for v in viols:
        v["script"] = byid.get(v["tr"])
    return viols, nl, nt


def c07_jumbo(sid, rng):
    """valid datagrams at the size limits: a session with more than a thousand URRs, a notification that reports on all of them
    (the Session Report Request does not fit into a UDP datagram), responses for the sequence numbers it may have used, then
    everything the session has is queried and removed; the UPF has to stay up and serving"""
    k = rng.choice([700, 1000, 1300])
    vals = {x: "" for x in ("tv", "uv", "dv", "tp", "up", "dp", "st", "et", "du")}
    E = [gen_l1.ev("init", maxrt=1),
         gen_l1.ev("assoc", peer="p1", seq=1, node="n1"),
         gen_l1.ev("assoc", peer="p2", seq=1, node="n2"),
         gen_l1.ev("est", peer="p2", seq=2, node="n2", cp="9", ops=[gen_l1.op("create", "far", 1)]),
         gen_l1.ev("est", peer="p1", seq=2, node="n1", cp="7", ops=[gen_l1.op("create", "urr", u, meth=rng.choice([2, 3])) for u in range(1, k + 1)]),
         gen_l1.ev("report", sref=2, reports=[{"k": "usar", "urr": u, "trig": 2, "pdr": 0, "action": 0, "pkt": "", "tok": 0, "vals": dict(vals)} for u in range(1, k + 1)])]
    for q in (0, 1, 2):
        E.append(gen_l1.ev("rptrsp", peer="p1", seq=q, seid="7"))
    E.append(gen_l1.ev("hb", peer="p1", seq=3))
    E.append(gen_l1.ev("mod", peer="p1", seq=4, sref=2, ops=[gen_l1.op("query", "urr", u) for u in range(1, k + 1)]))
    E.append(gen_l1.ev("rptrsp", peer="p1", seq=0, seid="0"))
    E.append(gen_l1.ev("del", peer="p1", seq=5, sref=2))
    E.append(gen_l1.ev("hb", peer="p2", seq=3))
    E.append(gen_l1.ev("mod", peer="p2", seq=4, sref=1, ops=[]))
    return {"id": sid, "events": E}


def c07_responses(sid, rng):
    """malformed RESPONSES that match a live transaction: the UPF has report requests outstanding (sequence numbers 0..5) and
    the owning peer answers them with a response that lost its Cause IE, has a wrong IE length, is cut after the header, ...;
    then the usual probes"""
    dl = {"k": "dldr", "urr": 0, "trig": 0, "pdr": 1, "action": 12, "pkt": "45000001", "tok": 0,
          "vals": {x: "" for x in ("tv", "uv", "dv", "tp", "up", "dp", "st", "et", "du")}}
    E = [gen_l1.ev("init", maxrt=2),
         gen_l1.ev("assoc", peer="p1", seq=1, node="n1"),
         gen_l1.ev("assoc", peer="p3", seq=1, node="n3"),
         gen_l1.ev("est", peer="p3", seq=2, node="n3", cp="555", ops=[gen_l1.op("create", "urr", 1, meth=2)]),
         gen_l1.ev("est", peer="p1", seq=2, node="n1", cp="7", ops=[gen_l1.op("create", "far", 1)])]
    for _ in range(6):
        E.append(gen_l1.ev("report", sref=2, reports=[dict(dl)]))
    muts = [{"op": "drop", "k": 0, "v": 0, "s": "0"}, {"op": "iel", "k": 0, "v": rng.choice([-1, 1, 255]), "s": "0"},
            {"op": "trunc", "k": rng.choice([8, 12, 16, 17]), "v": 0, "s": "0"}, {"op": "iet", "k": 0, "v": rng.choice([0, 20, 0x7fff]), "s": "0"},
            {"op": "ieb", "k": 0, "v": rng.randrange(256), "s": "0"}, {"op": "dup", "k": 0, "v": 0, "s": "0"}]
    rng.shuffle(muts)
    for q, m in enumerate(muts):
        E.append(gen_l1.ev("mut", peer="p1", seq=q, mbase="rptrsp", seid=rng.choice(["7", "0", "1"]), mut=m))
        E.append(gen_l1.ev("hb", peer="p3", seq=10 + q, tag="probe-hb"))
    E.append(gen_l1.ev("mod", peer="p3", seq=30, sref=1, ops=[gen_l1.op("query", "urr", 1)], tag="probe-mod:n3"))
    E.append(gen_l1.ev("hb", peer="q2", seq=31, tag="probe-hb"))
    return {"id": sid, "events": E}


def check_c07(pid, replay=None):
    import random
    t0 = time.time()
    thorough = vlib.tier() == "thorough"
    seed = vlib.seed()
    binary = vlib.build_test_binary("internal/pfcp")
    if replay:
        with open(replay) as fh:
            doc = json.load(fh)
        test = "TestVerifL2" if "L2" in doc.get("note", "") else "TestVerifL1"
        viols, _, _ = run_alive(binary, [doc["script"]], kbase(pid) + 9, "c07r", test, nproc=1)
        for v in viols:
            log("line %d: %s" % (v["i"], v["tags"]))
        if any(t.startswith("C07:") for v in viols for t in v["tags"]):
            print("VIOLATION property=%s replay=%s" % (pid, replay))
            return 1
        log("replay: no verdict for C07 on the current tree")
        return 0
    # valid prefixes: every edge of the bounded life-cycle model is a state x position in which garbage arrives
    mc = mc_generate("Lifecycle", 3, {"maxrt": 1, "txseq0": 0}, 1, 0, pid)
    rng = random.Random(seed)
    edges = mc["edges"]
    npre = 2500 if thorough else 160
    pre = rng.sample(edges, min(npre, len(edges)))
    nmut = 40 if thorough else 25
    scripts = []
    for i, h in enumerate(pre):
        nacc = sum(1 for e in h if e["t"] == "est" and e.get("tag") == "accepted")
        scripts.append(c07_script("gb-%d" % i, h, nacc, rng, nmut))
    log("MC Lifecycle: %d states, %d edges; %d prefixes x %d mutated datagrams each, on the model data plane (L1) and on the gtp5g driver over the simulated kernel (L2)" % (
        mc["distinct"], mc["edges_printed"], len(scripts), nmut))
    jumbo = [c07_jumbo("jumbo-%d" % j, rng) for j in range(4 if thorough else 2)]
    jumbo += [c07_responses("rsp-%d" % j, rng) for j in range(12 if thorough else 3)]
    v1, l1, t1 = run_alive(binary, scripts + jumbo, kbase(pid), "c07-l1", "TestVerifL1")
    half = scripts[: max(20, len(scripts) // 2)]
    v2, l2, t2 = run_alive(binary, half, kbase(pid), "c07-l2", "TestVerifL2")
    for v in v1:
        v["note"] = "L1"
    for v in v2:
        v["note"] = "L2"
    viols = v1 + v2
    known = vlib.load_known()
    n = 0
    seen = set()
    for v in viols:
        if not any(t.startswith("C07:") for t in v["tags"]):
            continue
        kf = match_known(known, pid, v)
        if kf:
            if kf["id"] not in seen:
                seen.add(kf["id"])
                print("KNOWN-FINDING: property=%s %s" % (pid, kf["what"]))
            continue
        n += 1
        if n <= 5:
            sc = v["script"] or {"id": v["tr"], "events": []}
            doc = {"property": pid, "kind": "alive", "tags": v["tags"], "trace": v["tr"], "line": v["i"], "note": v["note"],
                   "script": {"id": sc["id"], "events": sc["events"][:v["i"] + 1] if v["i"] else sc["events"]}, "recorded": v["line"]}
            path = vlib.save_replay(pid, "%s-%s-%d" % (v["note"], v["tr"], v["i"]), doc)
            log("  rejected (%s): %s" % (v["note"], v["tags"][0][:300]))
            print("VIOLATION property=%s replay=%s" % (pid, path))
    nrt, rtnotes = realtime_part(pid, "retain", 1, kbase(pid), accept=("C06:bookkeeping of an unanswered request",))
    n += nrt
    nmsg = sum(1 for s in scripts for e in s["events"] if e["t"] == "mut")
    cov = {"states": mc["distinct"], "transitions": mc["generated"], "traces_validated_against_impl": t1 + t2,
           "samples": [brief(scripts[0])[-8:]], "prefixes": len(scripts), "mutated_datagrams_l1": nmsg,
           "mutated_datagrams_l2": sum(1 for s in half for e in s["events"] if e["t"] == "mut"), "events_executed_on_impl": l1 + l2,
           "mutation_operators": MUT_OPS, "exhaustive": False,
           "checker_cmd": "tlc MC_Upf.tla (prefixes); tlc Trace_Alive.tla per recorded chunk"}
    vlib.write_evidence(pid, "model_checking", cov, time.time() - t0, n, [
        "bounded exploration of an unbounded input space: TLC contributes the valid prefixes (state x position) and the oracle; the byte-level search is seeded mutation",
        "a datagram taints the session its header SEID names and the node its node-id IE names; bystanders are probed only if untainted"])
    return 1 if n else 0


REGISTRY["C07"] = check_c07


# ============================================================================================== C17 / C18 concurrency

def conc_model(consts, invariants, name):
    """TLC on UpfConc.tla for one scenario; returns (holds, distinct, generated)"""
    d = vlib.stage_spec(["UpfConc.tla"], "conc-" + name)
    cfg = "SPECIFICATION Spec\nCONSTANTS\n" + "".join(" %s = %s\n" % (k, v) for k, v in consts.items()) + \
          "".join("INVARIANT %s\n" % i for i in invariants) + "CHECK_DEADLOCK FALSE\n"
    with open(os.path.join(d, "MC.cfg"), "w") as fh:
        fh.write(cfg)
    p = subprocess.run(["tlc", "-workers", "2", "-metadir", os.path.join(d, "md"), "-config", "MC.cfg", "UpfConc.tla"], cwd=d, env=vlib._tlc_env(),
                       stdout=subprocess.PIPE, stderr=subprocess.STDOUT, text=True, timeout=600)
    out = p.stdout
    m = re.search(r"(\d+) states generated, (\d+) distinct states found", out)
    if not m or ("No error has been found" not in out and "is violated" not in out):
        raise Infra("TLC failed on UpfConc (%s):\n%s" % (name, out[-2000:]))
    viol = re.findall(r"Invariant (\w+) is violated", out)
    return viol, int(m.group(2)), int(m.group(1))


def ceil_div(a, b):
    return -(-a // b)


def scen_model(s):
    """scale a real scenario to the model's units: evtCh 512 -> 2 (unit 256), srCh 128 -> 1 (unit 128)"""
    c = {"EvtCap": 2, "SrCap": 1, "ToCap": 1, "Dels": 0, "Reports": 0, "Mcasts": 0, "NlCalls": 0, "Timers": 0, "WithStop": "FALSE", "DoneChan": "TRUE"}
    if s["kind"] == "perio":
        # timer events the removals post: all of them can pile up in the periodic server's queue while that server is busy with
        # the tick's query - in one loop turn (re-association) or over many turns (one Deletion Request per session); the loop
        # blocks on the first send that finds the queue full either way
        c["Dels"] = ceil_div(s["n"] * s["u"], 256)
        c["Reports"] = ceil_div(s["n"], 128)
    elif s["kind"] == "mcast":
        c["Mcasts"] = ceil_div(s["burst"], 128)
        c["NlCalls"] = 1 if s["latency"] >= 0 else 0
    return c


import queue as _queue


def run_stress_pool(binary, scens, k0, nworkers):
    """run scenarios in parallel, each worker owning one loopback network"""
    ks = _queue.Queue()
    for i in range(nworkers):
        ks.put(k0 + i)

    def one(s):
        k = ks.get()
        try:
            return run_stress(binary, s, k)
        finally:
            ks.put(k)
    with cf.ThreadPoolExecutor(nworkers) as ex:
        return list(ex.map(one, scens))


def run_stress(binary, scen, k, race=False, timeout=300):
    d = vlib.sub("stress")
    fin = os.path.join(d, scen["id"] + ".in")
    fout = os.path.join(d, scen["id"] + ".out")
    with open(fin, "w") as fh:
        fh.write(json.dumps(scen) + "\n")
    if os.path.exists(fout):
        os.remove(fout)
    env = dict(os.environ, VERIF_IN=fin, VERIF_OUT=fout, VERIF_K=str(k))
    try:
        p = subprocess.run([binary, "-test.run", "^TestVerifStress$", "-test.timeout", "%ds" % timeout], env=env, cwd=d,
                           stdout=subprocess.PIPE, stderr=subprocess.STDOUT, text=True, timeout=timeout + 30)
        rc, txt = p.returncode, p.stdout
    except subprocess.TimeoutExpired as ex:
        rc, txt = -9, str(ex.stdout or "")
    outs = vlib.read_ndjson(fout)
    return rc, txt, (outs[0] if outs else None)


STRESS_BASE = {"kind": "perio", "n": 0, "u": 0, "bulk": "reassoc", "burst": 0, "latency": 0, "deadline": 10, "seed": 1, "smfs": 0, "prods": 0, "runms": 0, "stop": False}


def realtime_part(pid, kind, n, k, accept=(), wedge=False):
    """scenarios with the REAL timers / tickers (no injected expiries): returns the number of violations reported.
    Every verdict of these scenarios is conditional on measured times (see the harness), a slow machine yields no verdict."""
    binary = vlib.build_test_binary("internal/pfcp")
    nv = 0
    notes = []
    for j in range(n):
        sc = dict(STRESS_BASE, id="%s-%s-%d" % (pid, kind, j), kind=kind, seed=vlib.seed() * 10 + j, deadline=10)
        rc, txt, o = run_stress(binary, sc, k)
        if o is None:
            raise Infra("real-time scenario %s produced no result:\n%s" % (sc["id"], txt[-1500:]))
        notes.append(o.get("note", ""))
        bad = o.get("bad", "")
        if o.get("fatal") and not bad:
            bad = "C07:" + o["fatal"]
        if wedge and not o.get("answered", True) and not bad.startswith(pid + ":"):
            bad = pid + ":the event loop stopped answering during the scenario (%s)" % (o.get("sig") or "no progress")
        if bad.startswith(pid + ":") or any(bad.startswith(a) for a in accept) or (bad and not o.get("answered", True)):
            nv += 1
            doc = {"property": pid, "kind": "realtime", "scenario": sc, "tags": [bad], "note": "RT " + o.get("note", "")}
            path = vlib.save_replay(pid, "rt-%s-%d" % (kind, j), doc)
            log("  rejected: %s (%s)" % (bad, o.get("note", "")))
            print("VIOLATION property=%s replay=%s" % (pid, path))
        elif bad:
            log("note: real-time scenario %s: verdict of another property: %s" % (sc["id"], bad))
    log("real-time scenarios (%s): %s" % (kind, "; ".join(notes)[:600]))
    return nv, notes


def replay_realtime(pid, doc):
    binary = vlib.build_test_binary("internal/pfcp")
    rc, txt, o = run_stress(binary, doc["scenario"], kbase(pid) + 9)
    if o is None:
        raise Infra("real-time scenario produced no result:\n%s" % txt[-1500:])
    log("replay: %s %s" % (o.get("bad", ""), o.get("note", "")))
    if o.get("bad", "").startswith(pid + ":"):
        print("VIOLATION property=%s replay=%s" % (pid, "(replayed)"))
        return 1
    return 0


def c18_grid(thorough, rng):
    S = lambda **kw: dict(STRESS_BASE, **kw)
    g = [S(id="p-100x2", n=100, u=2), S(id="p-140x1", n=140, u=1), S(id="p-100x6", n=100, u=6), S(id="p-300x2", n=300, u=2),
         S(id="p-300x2-del", n=300, u=2, bulk="delete"), S(id="p-60x4", n=60, u=4),
         S(id="m-100", kind="mcast", burst=100, latency=250), S(id="m-200", kind="mcast", burst=200, latency=250),
         S(id="m-300-alone", kind="mcast", burst=300, latency=-1)]
    if thorough:
        for n in (50, 120, 129, 200, 600):
            for u in (1, 2, 5):
                g.append(S(id="p-%dx%d" % (n, u), n=n, u=u))
        for b in (64, 127, 129, 160, 400, 1000):
            g.append(S(id="m-%d" % b, kind="mcast", burst=b, latency=rng.choice([100, 300, 600])))
        g.append(S(id="p-200x3-del", n=200, u=3, bulk="delete"))
    return g


def check_c18(pid, replay=None):
    import random
    t0 = time.time()
    thorough = vlib.tier() == "thorough"
    rng = random.Random(vlib.seed())
    binary = vlib.build_test_binary("internal/pfcp")
    known = vlib.load_known()
    if replay:
        with open(replay) as fh:
            doc = json.load(fh)
        rc, txt, o = run_stress(binary, doc["scenario"], kbase(pid) + 9)
        if o is None or not o["answered"] or not o["stopped"]:
            print("VIOLATION property=%s replay=%s" % (pid, replay))
            return 1
        log("replay: the scenario made progress on the current tree")
        return 0
    grid = c18_grid(thorough, rng)
    # what does the specification say about each scenario?
    states = trans = 0
    pred = {}
    with cf.ThreadPoolExecutor(8) as ex:
        for s, (viol, d, g) in zip(grid, ex.map(lambda s: conc_model(scen_model(s), ["NoWedge", "AllServed"], s["id"]), grid)):
            pred[s["id"]] = "NoWedge" in viol
            states += d
            trans += g
            if "AllServed" in viol:
                raise Infra("UpfConc: a report is lost or duplicated in the model (%s)" % s["id"])
    log("UpfConc: %d scenarios model-checked (%d states): a wedge is reachable in %s" % (len(grid), states, sorted(k for k, v in pred.items() if v)))
    results = run_stress_pool(binary, grid, kbase(pid), 6)
    nviol = 0
    seen = set()
    samples = []
    for s, (rc, txt, o) in zip(grid, results):
        if o is None:
            raise Infra("stress scenario %s produced no result (rc=%d): %s" % (s["id"], rc, txt[-800:]))
        wedged = not o["answered"]
        samples.append({"scenario": {k: s[k] for k in ("id", "kind", "n", "u", "bulk", "burst", "latency")}, "model_says_wedge_reachable": pred[s["id"]],
                        "answered": o["answered"], "signature": o["sig"], "wall_ms": o["wallms"]})
        if o["fatal"] and o["answered"]:
            log("  scenario %s: fatal: %s" % (s["id"], o["fatal"][:200]))
        if not wedged and o["stopped"] and not o["fatal"]:
            continue
        v = {"tags": ["C18:the event loop made no progress: " + (o["sig"] or o["fatal"] or "not stopped")], "line": {"e": s}}
        kf = match_known(known, pid, v) if pred[s["id"]] else None
        if kf:
            if kf["id"] not in seen:
                seen.add(kf["id"])
                print("KNOWN-FINDING: property=%s %s" % (pid, kf["what"]))
            continue
        nviol += 1
        path = vlib.save_replay(pid, s["id"], {"property": pid, "kind": "stress", "scenario": s, "result": o, "model_says_wedge_reachable": pred[s["id"]]})
        log("  rejected: scenario %s wedged (%s) although %s" % (s["id"], o["sig"], "the specification admits no wedge there" if not pred[s["id"]] else "its blocked cycle is not a listed finding"))
        print("VIOLATION property=%s replay=%s" % (pid, path))
    cov = {"states": states, "transitions": trans, "traces_validated_against_impl": len(grid), "samples": samples,
           "scenarios": len(grid), "exhaustive": False,
           "checker_cmd": "tlc UpfConc.tla (INVARIANT NoWedge, AllServed) per scaled scenario; TestVerifStress per scenario on the real stack"}
    vlib.write_evidence(pid, "model_checking", cov, time.time() - t0, nviol, [
        "UpfConc.tla models goroutines and bounded channels; capacities scaled 512 -> 2, 128 -> 1 (the cycles exist for every finite capacity)",
        "progress oracle: a Heartbeat Request is answered within 10 s after the burst; on time-out the goroutine dump must show the blocked cycle",
        "a wedge counts as the known finding only if the specification says a wedge is reachable in that scenario AND the dump shows the listed cycle"])
    return 1 if nviol else 0


def check_c17(pid, replay=None):
    import random
    t0 = time.time()
    thorough = vlib.tier() == "thorough"
    rng = random.Random(vlib.seed())
    known = vlib.load_known()
    if replay:
        with open(replay) as fh:
            doc = json.load(fh)
        binary = vlib.build_test_binary("internal/pfcp", race=True)
        rc, txt, o = run_stress(binary, doc["scenario"], kbase(pid) + 9)
        bad = rc != 0 or o is None or not o["stopped"] or "DATA RACE" in txt or (doc["scenario"]["kind"] == "once" and o["emitted"] != o["delivered"])
        if bad:
            print("VIOLATION property=%s replay=%s" % (pid, replay))
            return 1
        log("replay: clean on the current tree")
        return 0
    # the specification: exactly-once delivery, no send on a closed channel, for small instances incl. Stop anywhere
    states = trans = 0
    models = [dict(scen_model(dict(STRESS_BASE, kind="none")), Dels=1, Reports=2, Mcasts=2, NlCalls=1, Timers=2, WithStop=w, SrCap=2) for w in ("TRUE", "FALSE")]
    for i, c in enumerate(models):
        viol, d, g = conc_model(c, ["NoSendOnClosed", "AllServed"], "c17-%d" % i)
        states += d
        trans += g
        if viol:
            raise Infra("UpfConc (repaired semantics) violates %s" % viol)
    log("UpfConc: exactly-once and no-send-on-closed hold for every schedule of the bounded model incl. Stop anywhere (%d states)" % states)
    binary = vlib.build_test_binary("internal/pfcp", race=True)
    nseed = 60 if thorough else 10
    scen = []
    for i in range(nseed):
        sd = vlib.seed() * 1000 + i
        scen.append(dict(STRESS_BASE, id="once-%d" % sd, kind="once", smfs=rng.randint(2, 4), prods=rng.randint(2, 8), runms=300, seed=sd))
        scen.append(dict(STRESS_BASE, id="stop-%d" % sd, kind="stop", smfs=rng.randint(2, 4), prods=rng.randint(2, 8), runms=rng.randint(5, 250), stop=True, seed=sd))
    # the periodic server closed while very short periods are ticking (a panic kills the child: "the process died")
    scen.append(dict(STRESS_BASE, id="perioclose-0", kind="perioclose", n=600 if thorough else 300, stop=True, seed=0))
    # Stop at once / a few hundred microseconds after Start: nothing is in flight except the start-up itself
    for j, us in enumerate([0, 0, 50, 300, 2000][: 5 if thorough else 3]):
        scen.append(dict(STRESS_BASE, id="stopearly-%d" % j, kind="stopearly", runms=us, stop=True, seed=j))
    results = run_stress_pool(binary, scen, kbase(pid), 5)
    nviol = 0
    seen = set()
    samples = []
    for s, (rc, txt, o) in zip(scen, results):
        why = None
        if "DATA RACE" in txt:
            why = "data race reported by the race detector: " + txt[txt.index("DATA RACE"):][:600].replace("\n", " | ")
        elif rc != 0 and "INFRA:" in txt:
            raise Infra("stress scenario %s: %s" % (s["id"], txt[-800:]))
        elif rc != 0 or o is None:
            why = "the process died: " + txt[-500:].replace("\n", " | ")
        elif not o["answered"]:
            why = "wedged: " + o["sig"]
        elif not o["stopped"]:
            why = "goroutines still running after Stop: " + (o["dump"][:300] or o["fatal"])
        elif o["fatal"]:
            why = "fault: " + o["fatal"][:300]
        elif s["kind"] == "once" and o["emitted"] != o["delivered"]:
            why = "%d notifications emitted, %d processed" % (o["emitted"], o["delivered"])
        if o:
            samples.append({"id": s["id"], "smfs": s["smfs"], "producers": s["prods"], "stop_after_ms": s["runms"] if s["stop"] else None,
                            "emitted": o["emitted"], "delivered": o["delivered"], "stopped": o["stopped"]})
        if why is None:
            continue
        v = {"tags": ["C17:" + why], "line": {"e": s}}
        kf = match_known(known, pid, v)
        if kf:
            if kf["id"] not in seen:
                seen.add(kf["id"])
                print("KNOWN-FINDING: property=%s %s" % (pid, kf["what"]))
            continue
        nviol += 1
        if nviol <= 5:
            path = vlib.save_replay(pid, s["id"], {"property": pid, "kind": "stress", "scenario": s, "result": o, "why": why, "output": txt[-3000:]})
            log("  rejected: %s: %s" % (s["id"], why[:300]))
            print("VIOLATION property=%s replay=%s" % (pid, path))
    cov = {"states": states, "transitions": trans, "traces_validated_against_impl": len(scen), "samples": samples[:6],
           "scenarios": len(scen), "race_detector": True, "exhaustive": False,
           "checker_cmd": "tlc UpfConc.tla (INVARIANT NoSendOnClosed, AllServed); TestVerifStress (built with -race) per scenario"}
    vlib.write_evidence(pid, "model_checking", cov, time.time() - t0, nviol, [
        "memory accesses are not modelled: freedom from data races is OBSERVED by running the conformance scenarios under the Go race detector",
        "exactly-once is judged at the simulated SMF: every BUFFER notification for a buffering+notifying FAR must yield one downlink data report (distinct sequence numbers)",
        "report producers are throttled below the report-queue size so that the known wedge of C18 does not mask this property"])
    return 1 if nviol else 0


REGISTRY["C17"] = check_c17
def check_c18_full(pid, replay=None):
    """the wedge grid + one scenario with the real period tickers: periodic reports must keep flowing after a failed query
    ("every report eventually forwarded")"""
    if replay:
        with open(replay) as fh:
            doc = json.load(fh)
        if doc.get("kind") == "realtime":
            binary = vlib.build_test_binary("internal/pfcp")
            rc, txt, o = run_stress(binary, doc["scenario"], kbase(pid) + 9)
            if o is not None and o.get("bad", "").startswith("C15:"):
                print("VIOLATION property=%s replay=%s" % (pid, replay))
                return 1
            return 0
        return check_c18(pid, replay)
    rc = check_c18(pid, None)
    n, notes = realtime_part(pid, "tickfail", 1, kbase(pid), accept=("C15:",))
    # the loop stalled in a slow data-plane call while 70 transaction timers fire and a notification arrives that cannot be sent
    n3, notes3 = realtime_part(pid, "txstall", 1, kbase(pid), wedge=True)
    n, notes = n + n3, notes + notes3
    # ordinary traffic with millisecond transaction timers and an SMF that answers report requests around the time-out: the
    # loop must keep answering (a response taken from the queue just after its timer fired must not block it)
    binary = vlib.build_test_binary("internal/pfcp")
    known = vlib.load_known()
    for j in range(4 if vlib.tier() == "thorough" else 2):
        sc = dict(STRESS_BASE, id="%s-once-%d" % (pid, j), kind="once", smfs=2, prods=3, runms=400, seed=vlib.seed() * 100 + j)
        rc1, txt, o = run_stress(binary, sc, kbase(pid))
        if o is None and "INFRA:" in txt:
            raise Infra("stress scenario %s: %s" % (sc["id"], txt[-800:]))
        if o is not None and o["answered"]:
            continue
        sig = (o or {}).get("sig", "") or "the process died: " + txt[-300:].replace("\n", " | ")
        v = {"tags": ["C18:the event loop made no progress: " + sig], "line": {"e": sc}}
        kf = match_known(known, pid, v)
        if kf:
            print("KNOWN-FINDING: property=%s %s" % (pid, kf["what"]))
            continue
        n += 1
        path = vlib.save_replay(pid, sc["id"], {"property": pid, "kind": "stress", "scenario": sc, "result": o})
        log("  rejected: scenario %s: the loop stopped answering (%s)" % (sc["id"], sig[:300]))
        print("VIOLATION property=%s replay=%s" % (pid, path))
    p = os.path.join(vlib.VERIF, "evidence", pid + ".json")
    with open(p) as fh:
        ev = json.load(fh)
    ev["coverage"]["realtime_scenarios"] = notes
    ev["violations"] = ev.get("violations", 0) + n
    with open(p, "w") as fh:
        json.dump(ev, fh, indent=1)
    return 1 if (rc or n) else 0


REGISTRY["C18"] = check_c18_full
