"""Seeded generators of abstract event scripts for the L1 executor (direction 2: code -> spec).

A script is {"id":..., "events":[init, ev, ev, ...]}; the executor resolves session references
(sref = ordinal of the session's establishment in this script) and report-request references
(rref = ordinal of the Session Report Request in observation order).  The generators keep only a
rough picture of what exists (to steer towards interesting histories); they are NOT an oracle -
TLC judges the recorded execution with the monitors of spec/Mon.tla.
"""
import random

KINDS = ["far", "qer", "urr", "bar", "pdr"]
U64 = 2 ** 64


def op(o, kind, i, **kw):
    d = {"op": o, "kind": kind, "id": i, "urrs": [], "hasurrs": False, "ueip": False, "far": 0, "meth": -1, "minfo": -1}
    d.update(kw)
    return d


def ev(t, **kw):
    d = {"t": t, "peer": "", "seq": 0, "node": "", "cp": "", "seid": "", "sref": 0, "rref": 0, "ops": [], "faults": [], "faults2": [],
         "reports": [], "tt": "", "tpeer": "", "tseq": 0, "raw": "", "maxrt": 0, "txseq0": "", "tag": "",
         "mbase": "", "mut": {"op": "", "k": 0, "v": 0, "s": ""}, "lax": False, "rts": 0}
    d.update(kw)
    return d


class Gen:
    """rough generator-side picture"""

    def __init__(self, rng, npeers=3):
        self.r = rng
        self.npeers = npeers
        self.seq = {}
        self.assoc = {}       # node -> peer
        self.sess = []        # dicts: ord, alive, node, peer, cp, ids{kind:set}
        self.nsrr = 0         # report requests expected so far (rough)
        # rule ids: mostly 1..3; one script in four uses ids that collide when truncated to 8 / 16 bits or sit at the top
        # of the id space (PDR ids are 16 bit, BAR ids 8 bit, the others 32 bit; TLC integers end at 2^31 - 1)
        if rng.random() < 0.25:
            self.pal = {"far": [1, 65537, 2147483647], "qer": [1, 65537, 2147483647], "urr": [1, 65537, 2147483647],
                        "pdr": [1, 257, 65535], "bar": [1, 2, 255]}
        else:
            self.pal = {k: [1, 2, 3] for k in KINDS}
        # request sequence numbers of a peer: mostly from 1; sometimes just below the end of the 24-bit space (wrap to 0)
        self.seq0 = 0xfffffc if rng.random() < 0.2 else 0
        self.sent = []        # request events sent (for duplicates)
        self.events = []

    def nseq(self, peer):
        self.seq[peer] = (self.seq.get(peer, self.seq0) + 1) & 0xffffff
        return self.seq[peer]

    def peer_of(self, node):
        return "p" + node[1:]

    def emit(self, e):
        self.events.append(e)
        if e["t"] in ("hb", "assoc", "est", "mod", "del", "assocupd", "assocrel"):
            self.sent.append(e)
        return e

    # ---- rule operations
    def rnd_urr_fields(self):
        r = self.r
        return {"meth": r.choice([-1, 0, 1, 2, 3, 2, 3, 6, 7]), "minfo": r.choice([-1, -1, 0, 8, 16, 16, 17, 24])}

    def rnd_op(self, s, creates_only=False, maxid=3, no_loose=False):
        r = self.r
        kind = r.choice(KINDS + ["urr", "pdr"])
        i = self.pal[kind][r.randint(1, maxid) - 1]
        o = "create" if creates_only else r.choice(["create", "create", "update", "remove", "remove", "query"])
        if o == "query":
            kind = "urr"
        if no_loose and o == "create" and i in s["ids"][kind]:
            o = r.choice(["update", "remove"])
        kw = {}
        if kind == "urr" and o in ("create", "update"):
            kw = self.rnd_urr_fields()
        if kind == "pdr" and o in ("create", "update"):
            urrs = [u for u in self.pal["urr"][:maxid] if r.random() < 0.4]
            if no_loose and o == "update" and not urrs:
                urrs = [r.choice(self.pal["urr"][:maxid])]
            if urrs and r.random() < 0.15:
                urrs = urrs + [r.choice(urrs)]      # the same URR ID IE twice: still ONE reference of this PDR
            kw = {"urrs": urrs, "hasurrs": bool(urrs), "ueip": r.random() < 0.5, "far": r.choice([0] + self.pal["far"][:2])}
        if o == "create":
            s["ids"][kind].add(i)
        if o == "remove":
            s["ids"][kind].discard(i)
        return op(o, kind, i, **kw)

    def uniq_bar(self, ops):
        """go-pfcp keeps a single Create/Update/Remove BAR IE per message: keep the last of each"""
        seen = set()
        out = []
        for o in reversed(ops):
            if o["kind"] == "bar":
                if o["op"] in seen:
                    continue
                seen.add(o["op"])
            out.append(o)
        return list(reversed(out))

    def faults(self, p):
        return [i for i in range(8) if self.r.random() < p]

    def faults2(self, p):
        return [i for i in range(8) if self.r.random() < p / 2]

    # ---- events
    def assoc_ev(self, node=None, peer=None):
        r = self.r
        node = node or "n%d" % r.randint(1, self.npeers)
        peer = peer or (self.peer_of(node) if r.random() < 0.85 else "p%d" % r.randint(1, self.npeers))
        for s in self.sess:
            if s["node"] == node:
                s["alive"] = False
        self.assoc[node] = peer
        # the peer's own recovery time stamp: usually the same, now and then older (a delayed or restarted-clock peer) or newer
        return self.emit(ev("assoc", peer=peer, seq=self.nseq(peer), node=node, rts=r.choice([0, 0, 0, -3600, -1, 5, 86400])))

    def est_ev(self, pfault=0.0, bad=0.1, maxops=5, cps=("1", "2", "7", "100")):
        r = self.r
        if self.assoc and r.random() > bad:
            node = r.choice(sorted(self.assoc))
        else:
            node = r.choice(["", "n%d" % r.randint(1, 4)])
        peer = self.assoc.get(node) or "p%d" % r.randint(1, self.npeers)
        if r.random() < 0.1:
            peer = "p%d" % r.randint(1, self.npeers)
        cp = r.choice(cps) if r.random() > bad / 2 else ""
        s = {"ord": 0, "alive": False, "node": node, "peer": peer, "cp": cp, "ids": {k: set() for k in KINDS}}
        ops = self.uniq_bar([self.rnd_op(s, creates_only=True) for _ in range(r.randint(0, maxops))])
        e = ev("est", peer=peer, seq=self.nseq(peer), node=node, cp=cp, ops=ops, faults=self.faults(pfault), faults2=self.faults2(pfault))
        if node in self.assoc and cp != "":
            s["ord"] = 1 + sum(1 for x in self.sess)
            s["alive"] = True
            self.sess.append(s)
        return self.emit(e)

    def pick_sess(self, alive_bias=0.8):
        r = self.r
        if not self.sess:
            return None
        alive = [s for s in self.sess if s["alive"]]
        if alive and r.random() < alive_bias:
            return r.choice(alive)
        return r.choice(self.sess)

    def seid_literal(self):
        r = self.r
        return str(r.choice([0, len(self.sess) + 1, len(self.sess) + 1000, 2 ** 31, 2 ** 32, 2 ** 63 - 1, 2 ** 63, 2 ** 63 + 1, 2 ** 64 - 2, 2 ** 64 - 1,
                             r.randrange(1, 2 ** 63), r.randrange(2 ** 63, 2 ** 64)]))

    def mod_ev(self, pfault=0.0, maxops=4, lit=0.1, no_loose=False, maxid=3):
        r = self.r
        s = self.pick_sess()
        if s is None or r.random() < lit:
            peer = "p%d" % r.randint(1, self.npeers)
            # sometimes with a CP F-SEID IE naming a live session's CP SEID, from that session's peer: the header SEID addresses
            # the session, nothing else does
            cp = ""
            alive = [x for x in self.sess if x["alive"]]
            if alive and r.random() < 0.5:
                t = r.choice(alive)
                cp, peer = t["cp"], t["peer"]
            return self.emit(ev("mod", peer=peer, seq=self.nseq(peer), seid=self.seid_literal(), cp=cp,
                                ops=[op("create", "far", 1), op("remove", "far", 2)] if r.random() < 0.5 else []))
        peer = s["peer"] if r.random() < 0.9 else "p%d" % r.randint(1, self.npeers)
        if r.random() < 0.04:
            # a Node ID IE that cannot be decoded, together with rule IEs: if the request goes unanswered it must leave no trace
            # (the generator's picture of the session is left alone: it is only a picture)
            scratch = {"ids": {k: set(v) for k, v in s["ids"].items()}}
            ops = self.uniq_bar([self.rnd_op(scratch, maxid=maxid) for _ in range(r.randint(1, maxops))])
            return self.emit(ev("mod", peer=peer, seq=self.nseq(peer), sref=s["ord"], node="!bad", ops=ops))
        ops = self.uniq_bar([self.rnd_op(s, no_loose=no_loose, maxid=maxid) for _ in range(r.randint(0, maxops))])
        return self.emit(ev("mod", peer=peer, seq=self.nseq(peer), sref=s["ord"], ops=ops, faults=self.faults(pfault), faults2=self.faults2(pfault)))

    def detach_ev(self):
        """one request that removes a URR and, in the same breath, detaches it / queries it (C12: once per URR)"""
        r = self.r
        s = self.pick_sess(1.0)
        if s is None or not s["alive"]:
            return self.mod_ev()
        u = r.choice(sorted(s["ids"]["urr"]) or [1])
        p = r.choice(sorted(s["ids"]["pdr"]) or [1])
        other = self.pal["urr"][(self.pal["urr"].index(u) + 1) % 3] if u in self.pal["urr"] else self.pal["urr"][0]
        second = r.choice([op("remove", "pdr", p), op("update", "pdr", p, urrs=[other], hasurrs=True), op("query", "urr", u)])
        if r.random() < 0.3:
            # the URR stays, its PDR goes or is re-pointed, and the same request queries it: one final and one immediate report
            first = r.choice([op("remove", "pdr", p), op("update", "pdr", p, urrs=[other], hasurrs=True)])
            ops = [first, op("query", "urr", u)]
            r.shuffle(ops)
            if first["op"] == "remove":
                s["ids"]["pdr"].discard(p)
            return self.emit(ev("mod", peer=s["peer"], seq=self.nseq(s["peer"]), sref=s["ord"], ops=ops))
        ops = [op("remove", "urr", u), second]
        r.shuffle(ops)
        s["ids"]["urr"].discard(u)
        if second["op"] == "remove":
            s["ids"]["pdr"].discard(p)
        return self.emit(ev("mod", peer=s["peer"], seq=self.nseq(s["peer"]), sref=s["ord"], ops=ops))

    def dupattach_ev(self):
        """Update PDR naming a URR twice (one reference), then the PDR goes away or is re-pointed: final usage due (C12)"""
        r = self.r
        s = self.pick_sess(1.0)
        if s is None or not s["alive"] or not s["ids"]["pdr"] or not s["ids"]["urr"]:
            return self.mod_ev()
        p = r.choice(sorted(s["ids"]["pdr"]))
        us = sorted(s["ids"]["urr"])
        u = r.choice(us)
        keep = [x for x in us if x != u and r.random() < 0.5]
        lst = keep + [u, u]
        r.shuffle(lst)
        self.emit(ev("mod", peer=s["peer"], seq=self.nseq(s["peer"]), sref=s["ord"], ops=[op("update", "pdr", p, urrs=lst, hasurrs=True)]))
        if r.random() < 0.3:
            self.report_ev()
        if r.random() < 0.5:
            s["ids"]["pdr"].discard(p)
            second = op("remove", "pdr", p)
        else:
            other = [x for x in self.pal["urr"] if x != u] or [u]
            second = op("update", "pdr", p, urrs=[r.choice(other)], hasurrs=True)
        return self.emit(ev("mod", peer=s["peer"], seq=self.nseq(s["peer"]), sref=s["ord"], ops=[second]))

    def recreate_ev(self):
        """a URR that a PDR names is removed and created again under the same id; later that PDR - its only referrer - goes or
        is re-pointed: the re-created URR's final usage is due (C12: 'precisely those PDRs whose current URR list names it')"""
        r = self.r
        s = self.pick_sess(1.0)
        if s is None or not s["alive"]:
            return self.mod_ev()
        u = r.choice(self.pal["urr"])
        p = r.choice(self.pal["pdr"])
        snd = lambda ops: self.emit(ev("mod", peer=s["peer"], seq=self.nseq(s["peer"]), sref=s["ord"], ops=ops))
        if u not in s["ids"]["urr"]:
            snd([op("create", "urr", u, meth=2)])
        if p in s["ids"]["pdr"]:
            snd([op("update", "pdr", p, urrs=[u], hasurrs=True)])
        else:
            snd([op("create", "pdr", p, urrs=[u], hasurrs=True)])
        s["ids"]["urr"].add(u)
        s["ids"]["pdr"].add(p)
        snd([op("remove", "urr", u)])
        snd([op("create", "urr", u, meth=r.choice([2, 3]))])
        if r.random() < 0.3:
            self.report_ev()
        if r.random() < 0.5:
            s["ids"]["pdr"].discard(p)
            return snd([op("remove", "pdr", p)])
        other = [x for x in self.pal["urr"] if x != u]
        return snd([op("update", "pdr", p, urrs=[r.choice(other)], hasurrs=True)])

    def del_ev(self, lit=0.1):
        r = self.r
        s = self.pick_sess(0.7)
        if s is None or r.random() < lit:
            peer = "p%d" % r.randint(1, self.npeers)
            return self.emit(ev("del", peer=peer, seq=self.nseq(peer), seid=self.seid_literal()))
        peer = s["peer"] if r.random() < 0.9 else "p%d" % r.randint(1, self.npeers)
        s["alive"] = False
        return self.emit(ev("del", peer=peer, seq=self.nseq(peer), sref=s["ord"]))

    def dup_ev(self):
        if not self.sent:
            return self.hb_ev()
        e = dict(self.r.choice(self.sent[-6:]))
        e["tag"] = "dup"
        self.events.append(e)
        return e

    def hb_ev(self, peer=None):
        peer = peer or self.r.choice(["p%d" % self.r.randint(1, self.npeers), "q1", "q2"])
        return self.emit(ev("hb", peer=peer, seq=self.nseq(peer)))

    def report_ev(self, trigs=(2, 4, 256, 512, 1, 8, 64, 1024)):
        r = self.r
        s = self.pick_sess(0.85)
        if s is None:
            return self.hb_ev()
        reps = [{"k": "usar", "urr": r.choice(self.pal["urr"]), "trig": r.choice(trigs), "pdr": 0, "action": 0, "pkt": "", "tok": 0,
                 "vals": {k: "" for k in ("tv", "uv", "dv", "tp", "up", "dp", "st", "et", "du")}}
                for _ in range(r.randint(1, 3))]
        if s["alive"]:
            self.nsrr += 1
        return self.emit(ev("report", sref=s["ord"], reports=reps))

    def dldr_ev(self):
        r = self.r
        s = self.pick_sess(0.85)
        if s is None:
            return self.hb_ev()
        act = r.choice([4, 12, 12, 8, 2])
        if r.random() < 0.25:
            act |= r.choice([0x10, 0x200, 0x400, 0x1800])     # further Apply Action flags: NOCP alone decides about the notification
        reps = [{"k": "dldr", "urr": 0, "trig": 0, "pdr": r.choice(self.pal["pdr"]), "action": act, "pkt": "4500%04x" % r.randrange(65536),
                 "tok": 0, "vals": {k: "" for k in ("tv", "uv", "dv", "tp", "up", "dp", "st", "et", "du")}}]
        if s["alive"] and act & 8:
            self.nsrr += 1
        return self.emit(ev("report", sref=s["ord"], reports=reps))

    def rptrsp_ev(self, zero=0.5, wrongpeer=0.15):
        r = self.r
        if self.nsrr == 0:
            return self.hb_ev()
        k = r.randint(max(1, self.nsrr - 3), self.nsrr)
        peer = "" if r.random() > wrongpeer else r.choice(["p%d" % r.randint(1, self.npeers), "q1"])
        seid = "0" if r.random() < zero else str(r.choice([1, 2, 7, 100]))
        return self.emit(ev("rptrsp", peer=peer, rref=k, seid=seid))

    def stray_rsp_ev(self):
        r = self.r
        peer = "p%d" % r.randint(1, self.npeers)
        return self.emit(ev(r.choice(["rptrsp", "hbrsp"]), peer=peer, seq=r.choice([0, 1, 2, 5, 16777215]), seid=r.choice(["0", "1"])))

    def txto_ev(self):
        r = self.r
        if self.nsrr == 0:
            return self.hb_ev()
        k = r.randint(max(1, self.nsrr - 3), self.nsrr)
        return self.emit(ev("timeout", tt="tx", rref=k))

    def rxto_ev(self):
        if not self.sent:
            return self.hb_ev()
        e = self.r.choice(self.sent[-8:])
        return self.emit(ev("timeout", tt="rx", tpeer=e["peer"], tseq=e["seq"]))

    def takeover_ev(self):
        r = self.r
        s = self.pick_sess(1.0)
        if s is None or not s["alive"]:
            return self.hb_ev()
        free = [n for n in ("n1", "n2", "n3", "n4") if n not in self.assoc]
        if not free:
            return self.hb_ev()
        new = r.choice(free)
        old = s["node"]
        peer = self.peer_of(new)
        for x in self.sess:
            if x["node"] == old:
                x["node"] = new
        self.assoc[new] = self.assoc.pop(old)
        return self.emit(ev("mod", peer=peer, seq=self.nseq(peer), sref=s["ord"], node=new))


def script(sid, g, maxrt=2, txseq0="", lax=False):
    return {"id": sid, "events": [ev("init", maxrt=maxrt, txseq0=txseq0, lax=lax)] + g.events}


# ------------------------------------------------------------------------------------------ families

def lifecycle(seed, n, length=60, pfault=0.15):
    """C01 C04 C05 C08: sessions of several nodes, colliding ids, faults, SEID classes, SEID-0 responses"""
    out = []
    for i in range(n):
        rng = random.Random(seed * 1000003 + i)
        g = Gen(rng, npeers=rng.choice([2, 3, 4, 5, 5]))
        pf = rng.choice([0.0, 0.1, pfault, 0.5])
        g.assoc_ev(node="n1", peer="p1")
        for _ in range(length):
            x = rng.random()
            if x < 0.07:
                g.assoc_ev()
            elif x < 0.27:
                g.est_ev(pfault=pf)
            elif x < 0.57:
                g.mod_ev(pfault=pf)
            elif x < 0.67:
                g.del_ev()
            elif x < 0.72:
                g.dup_ev()
            elif x < 0.80:
                g.report_ev()
            elif x < 0.88:
                g.rptrsp_ev(zero=0.8)
            elif x < 0.91:
                g.takeover_ev()
            elif x < 0.94:
                g.hb_ev()
            elif x < 0.97:
                g.emit(ev(rng.choice(["assocupd", "assocrel"]), peer="p1", seq=g.nseq("p1"), node="n1"))
            else:
                g.rxto_ev()
        out.append(script("lc-%d-%d" % (seed, i), g, maxrt=rng.randint(0, 3)))
    return out


def rxtx(seed, n, length=70):
    """C06 C09: duplicates, equal sequence numbers from several peers, retention / retransmission time-outs"""
    out = []
    for i in range(n):
        rng = random.Random(seed * 1000033 + i)
        g = Gen(rng, npeers=rng.choice([2, 3]))
        # small shared sequence space so that different peers collide on sequence numbers
        g.nseq = lambda peer, rng=rng: rng.randint(1, 6)
        g.assoc_ev(node="n1", peer="p1")
        g.assoc_ev(node="n2", peer="p2")
        g.est_ev(bad=0)
        txseq0 = rng.choice(["", "", "16777213", "16777215", str(rng.randrange(2 ** 32)), str(2 ** 32 - 2)])
        for _ in range(length):
            x = rng.random()
            if x < 0.12:
                g.hb_ev()
            elif x < 0.32:
                g.dup_ev()
            elif x < 0.40:
                g.est_ev(bad=0.3)
            elif x < 0.50:
                g.mod_ev()
            elif x < 0.54:
                g.del_ev()
            elif x < 0.66:
                g.rxto_ev()
            elif x < 0.78:
                g.report_ev()
            elif x < 0.88:
                g.txto_ev()
            elif x < 0.95:
                g.rptrsp_ev(zero=0.1, wrongpeer=0.3)
            elif x < 0.98:
                g.stray_rsp_ev()
            else:
                g.assoc_ev()
        out.append(script("rt-%d-%d" % (seed, i), g, maxrt=rng.randint(0, 3), txseq0=txseq0))
    # the largest configurable retry count (uint8): one report request timed out 258 times - 255 retransmissions, then
    # abandoned and released, nothing afterwards
    for j, mr in enumerate([255, 254][:max(1, n // 40)]):
        rng = random.Random(seed * 1000033 + 7777 + j)
        g = Gen(rng, npeers=2)
        g.assoc_ev(node="n1", peer="p1")
        g.emit(ev("est", peer="p1", seq=g.nseq("p1"), node="n1", cp="7", ops=[op("create", "far", 1)]))
        dl = {"k": "dldr", "urr": 0, "trig": 0, "pdr": 1, "action": 12, "pkt": "45000001", "tok": 0,
              "vals": {k: "" for k in ("tv", "uv", "dv", "tp", "up", "dp", "st", "et", "du")}}
        g.dup_ev()      # the establishment again, well inside the retention window of (maxRetrans + 1) time-outs
        g.emit(ev("report", sref=1, reports=[dict(dl)]))
        for _ in range(mr + 3):
            g.emit(ev("timeout", tt="tx", rref=1))
        g.hb_ev(peer="p1")
        g.emit(ev("report", sref=1, reports=[dict(dl)]))
        g.emit(ev("timeout", tt="tx", rref=2))
        out.append(script("rt-%d-max%d" % (seed, mr), g, maxrt=mr, txseq0=""))
    return out


def seqlong(sid, rng, per, rounds, meth=2):
    """a URR that reports per * rounds times (plus a second URR as control): UR-SEQN must simply keep counting"""
    vals = {k: "" for k in ("tv", "uv", "dv", "tp", "up", "dp", "st", "et", "du")}
    g = Gen(rng, npeers=2)
    g.assoc_ev(node="n1", peer="p1")
    g.emit(ev("est", peer="p1", seq=g.nseq("p1"), node="n1", cp="7", ops=[op("create", "urr", 1, meth=meth), op("create", "urr", 2, meth=2)]))
    for r_ in range(rounds):
        reps = [{"k": "usar", "urr": 1, "trig": 2, "pdr": 0, "action": 0, "pkt": "", "tok": 0, "vals": dict(vals)} for _ in range(per)]
        reps.insert(rng.randrange(per), {"k": "usar", "urr": 2, "trig": 4, "pdr": 0, "action": 0, "pkt": "", "tok": 0, "vals": dict(vals)})
        g.emit(ev("report", sref=1, reports=reps))
        if r_ % 7 == 3:
            g.emit(ev("mod", peer="p1", seq=g.nseq("p1"), sref=1, ops=[op("query", "urr", 1)]))
    g.emit(ev("del", peer="p1", seq=g.nseq("p1"), sref=1))
    return script(sid, g, maxrt=1)


def seq16(seed):
    """C11 only: more than 65 536 reports over the lifetime of one URR (no volume measurement: 1 100 reports fit a datagram)"""
    return [seqlong("us-%d-seq16" % seed, random.Random(seed * 1000037 + 3333), 1100, 61, meth=1)]


def usage(seed, n, length=70, pfault=0.0):
    """C10 C11 C12: URR / PDR relation, queries, removals, reports from the data plane, deletion"""
    out = []
    for i in range(n):
        rng = random.Random(seed * 1000037 + i)
        g = Gen(rng, npeers=2)
        g.assoc_ev(node="n1", peer="p1")
        g.assoc_ev(node="n2", peer="p2")
        if i % 4 == 1:
            # a third node whose id is a host name that resolves nowhere: its sessions work, report requests for them cannot be
            # sent - and must not use up UR-SEQNs that later show as gaps in responses
            g.assoc_ev(node="nx", peer="p2")
            u = g.pal["urr"][0]
            vals = {k: "" for k in ("tv", "uv", "dv", "tp", "up", "dp", "st", "et", "du")}
            g.emit(ev("est", peer="p2", seq=g.nseq("p2"), node="nx", cp="9", ops=[op("create", "urr", u, meth=2)]))
            g.sess.append({"ord": len(g.sess) + 1, "alive": True, "node": "nx", "peer": "p2", "cp": "9", "ids": {k: ({u} if k == "urr" else set()) for k in KINDS}})
            for _ in range(rng.randint(1, 3)):
                g.emit(ev("report", sref=len(g.sess), reports=[{"k": "usar", "urr": u, "trig": 2, "pdr": 0, "action": 0, "pkt": "", "tok": 0, "vals": dict(vals)}]))
            g.emit(ev("mod", peer="p2", seq=g.nseq("p2"), sref=len(g.sess), ops=[op("query", "urr", u)]))
        for _ in range(rng.randint(1, 3)):
            g.est_ev(bad=0, maxops=6)
        for _ in range(length):
            x = rng.random()
            if x < 0.015:
                g.recreate_ev()
            elif x < 0.03:
                g.dupattach_ev()
            elif x < 0.06:
                g.detach_ev()
            elif x < 0.50:
                g.mod_ev(lit=0.02, no_loose=rng.random() < 0.9, pfault=pfault)
            elif x < 0.75:
                g.report_ev()
            elif x < 0.80:
                g.del_ev(lit=0.0)
            elif x < 0.90:
                g.est_ev(bad=0, maxops=6)
            elif x < 0.95:
                g.rptrsp_ev(zero=0.1, wrongpeer=0)
            else:
                g.dup_ev()
        # a third of the histories run against a permissive data plane (answers queries for URRs it has removed)
        out.append(script("us-%d-%d" % (seed, i), g, maxrt=1, lax=(i % 3 == 2)))
    # hundreds of reports for one URR (its UR-SEQN passes 255 / 256): notifications with 150 reports each
    for j in range(max(1, n // 60)):
        out.append(seqlong("us-%d-seq%d" % (seed, j), random.Random(seed * 1000037 + 4444 + j), 150, 3))
    # one URR named by some hundred PDRs (more than 255 and 256): the final usage is due when the LAST of them goes, not before
    for j in range(max(1, n // 60)):
        rng = random.Random(seed * 1000037 + 5555 + j)
        g = Gen(rng, npeers=2)
        g.assoc_ev(node="n1", peer="p1")
        npdr = rng.choice([257, 258, 300])
        g.emit(ev("est", peer="p1", seq=g.nseq("p1"), node="n1", cp="7", ops=[op("create", "urr", 1, meth=2), op("create", "urr", 2, meth=2)]))
        ids = list(range(1, npdr + 1))
        for a in range(0, npdr, 50):
            g.emit(ev("mod", peer="p1", seq=g.nseq("p1"), sref=1, ops=[op("create", "pdr", p, urrs=[1], hasurrs=True) for p in ids[a:a + 50]]))
        rng.shuffle(ids)
        for p in ids:
            # one PDR per request (the statement speaks of requests); now and then the PDR is re-pointed instead of removed
            if rng.random() < 0.2:
                g.emit(ev("mod", peer="p1", seq=g.nseq("p1"), sref=1, ops=[op("update", "pdr", p, urrs=[2], hasurrs=True)]))
            else:
                g.emit(ev("mod", peer="p1", seq=g.nseq("p1"), sref=1, ops=[op("remove", "pdr", p)]))
        g.emit(ev("del", peer="p1", seq=g.nseq("p1"), sref=1))
        out.append(script("us-%d-many%d" % (seed, j), g, maxrt=1))
    return out
