----------------------------- MODULE RuleXlate -----------------------------
(***************************************************************************)
(* Reference for C02 / C03: the gtp5g rule that a Create/Update PDR, FAR,  *)
(* QER, URR or BAR grouped IE denotes.                                     *)
(*                                                                         *)
(* An IE is a tree node [t, v, kids, g]: type number (TS 29.244 table      *)
(* 8.1.2-1), payload octets in network order (leaf), children (grouped).   *)
(* The expected netlink request is a BAG of leaves [p, v]: the path of     *)
(* attribute numbers (gtp5g's genl attribute numbering) and the value      *)
(* octets as they travel (native = little endian for integers, addresses   *)
(* as they are).  Working on octets means that no value can be truncated,  *)
(* shifted or wired to another attribute without the bags differing, and   *)
(* that 64-bit values need no arithmetic.                                  *)
(***************************************************************************)
EXTENDS Integers, Sequences, FiniteSets, SequencesExt, TLC, FlowDesc

\* ------------------------------------------------------------------ IE type numbers (TS 29.244)
IE_CreatePDR == 1   IE_PDI == 2   IE_CreateFAR == 3   IE_FwdParams == 4   IE_CreateURR == 6   IE_CreateQER == 7
IE_UpdatePDR == 9   IE_UpdateFAR == 10   IE_UpdFwdParams == 11   IE_UpdateURR == 13   IE_UpdateQER == 14
IE_SourceInterface == 20   IE_FTEID == 21   IE_NetworkInstance == 22   IE_SDFFilter == 23   IE_ApplicationID == 24
IE_GateStatus == 25   IE_MBR == 26   IE_GBR == 27   IE_QERCorrelationID == 28   IE_Precedence == 29
IE_VolumeThreshold == 31   IE_ReportingTriggers == 37   IE_ForwardingPolicy == 41   IE_DestinationInterface == 42
IE_ApplyAction == 44   IE_DDNDelay == 46   IE_PFCPSMReqFlags == 49   IE_PDRID == 56   IE_MeasurementMethod == 62
IE_MeasurementPeriod == 64   IE_VolumeQuota == 73   IE_URRID == 81   IE_OuterHeaderCreation == 84   IE_CreateBAR == 85
IE_UpdateBAR == 86   IE_BARID == 88   IE_UEIPAddress == 93   IE_OuterHeaderRemoval == 95   IE_MeasurementInformation == 100
IE_FARID == 108   IE_QERID == 109   IE_RQI == 123   IE_QFI == 124   IE_SuggestedBufferingPackets == 140   IE_PPI == 158

\* ------------------------------------------------------------------ octet helpers
Rev(s) == [i \in 1..Len(s) |-> s[Len(s) + 1 - i]]
Take(s, n) == SubSeq(s, 1, n)
Drop(s, n) == SubSeq(s, n + 1, Len(s))
Mid(s, from, n) == SubSeq(s, from, from + n - 1)
Pad(s, n) == s \o [i \in 1..(n - Len(s)) |-> 0]       \* little-endian widening
Leaf(p, v) == [p |-> p, v |-> v]
Bit(o, b) == (o \div b) % 2 = 1
Kids(n, t) == SelectSeq(n.kids, LAMBDA k : k.t = t)
KidLeaves(n, F(_)) == FlattenSeq([i \in DOMAIN n.kids |-> F(n.kids[i])])
LE16(x) == <<x % 256, x \div 256>>
SeidLeaf(p, seid) == Leaf(p, seid)                     \* the SEID is given as its 8 octets, little endian
GTPU_PORT == <<104, 8>>                                \* 2152

\* ------------------------------------------------------------------ PDI and SDF filter
SRC_ACCESS == 0
\* uplink PDRs (source interface Access) get source and destination exchanged; the source interface is
\* whatever the PDI says, wherever the IE stands among its siblings
Uplink(pdi) == LET si == Kids(pdi, IE_SourceInterface) IN si # <<>> /\ si[Len(si)].v[1] % 16 = SRC_ACCESS
PortWords(ps) == FlattenSeq([i \in DOMAIN ps |-> LE16(ps[i][2]) \o LE16(ps[i][1])])
SdfLeaves(n, uplink) ==
  LET flags == n.v[1] IN
  (IF Bit(flags, 1)
   THEN LET d == Packed(n.rule, uplink)
            P == "5.3.1."
        IN << Leaf(P \o "1", <<1>>), Leaf(P \o "2", <<IF d.dir = "in" THEN 1 ELSE 2>>), Leaf(P \o "3", <<d.proto>>),
              Leaf(P \o "4", d.src), Leaf(P \o "5", d.smask), Leaf(P \o "6", d.dst), Leaf(P \o "7", d.dmask),
              Leaf(P \o "8", PortWords(d.sports)), Leaf(P \o "9", PortWords(d.dports)) >>
   ELSE << >>)
  \o (IF Bit(flags, 16) THEN << Leaf("5.3.5", Rev(Mid(n.v, Len(n.v) - 3, 4))) >> ELSE << >>)
  \o (IF ~Bit(flags, 1) /\ ~Bit(flags, 16) THEN << [p |-> "5.3", v |-> << >>] >> ELSE << >>)
PdiLeaves(pdi) ==
  LET up == Uplink(pdi)
      one(k) ==
        CASE k.t = IE_SourceInterface -> << Leaf("5.4", <<k.v[1] % 16>>) >>
          [] k.t = IE_FTEID /\ Bit(k.v[1], 1) /\ ~Bit(k.v[1], 4) ->            \* V4, TEID not to be chosen by the UP
               << Leaf("5.2.1", Rev(Mid(k.v, 2, 4))), Leaf("5.2.2", Mid(k.v, 6, 4)) >>
          [] k.t = IE_UEIPAddress /\ Bit(k.v[1], 2) -> << Leaf("5.1", Mid(k.v, 2, 4)) >>
          [] k.t = IE_SDFFilter -> SdfLeaves(k, up)
          [] OTHER -> << >>
      \* the driver emits the SDF filters after the other PDI attributes; as a bag this does not matter
  IN IF pdi.kids = << >> THEN << [p |-> "5", v |-> << >>] >> ELSE KidLeaves(pdi, one)

\* ------------------------------------------------------------------ the five rule kinds
PdrLeaves(n, create) ==
  LET one(k) ==
        CASE k.t = IE_PDRID -> << Leaf("3", Rev(k.v)) >>
          [] k.t = IE_Precedence -> << Leaf("4", Rev(k.v)) >>
          [] k.t = IE_PDI -> PdiLeaves(k)
          [] k.t = IE_OuterHeaderRemoval -> << Leaf("6", <<k.v[1]>>) >>
          [] k.t = IE_FARID -> << Leaf("7", Rev(k.v)) >>
          [] k.t = IE_QERID -> << Leaf("10", Rev(k.v)) >>
          [] k.t = IE_URRID -> << Leaf("12", Rev(k.v)) >>
          [] OTHER -> << >>
  IN KidLeaves(n, one) \o (IF create THEN << Leaf("9", <<47, 0>>) >> ELSE << >>)      \* buffering socket path "/"

OhcLeaves(k) ==
  LET d1 == k.v[1]                         \* first octet of the description
      gtpu == Bit(d1, 1) \/ Bit(d1, 2)     \* GTP-U/UDP/IPv4, GTP-U/UDP/IPv6
      v4 == Bit(d1, 1) \/ Bit(d1, 4)       \* .../IPv4
      off == IF gtpu THEN 7 ELSE 3         \* octets after description [+ TEID]
      P == "5.1."
  IN << Leaf(P \o "1", <<k.v[2], k.v[1]>>) >>
     \o (IF gtpu THEN << Leaf(P \o "2", Rev(Mid(k.v, 3, 4))), Leaf(P \o "4", GTPU_PORT) >> ELSE << >>)
     \o (IF ~gtpu THEN << Leaf(P \o "4", Rev(Mid(k.v, off + (IF v4 THEN 4 ELSE 0), 2))) >> ELSE << >>)
     \o (IF v4 THEN << Leaf(P \o "3", Mid(k.v, off, 4)) >> ELSE << >>)
FwdLeaves(fp) ==
  LET one(k) ==
        CASE k.t = IE_OuterHeaderCreation -> OhcLeaves(k)
          [] k.t = IE_ForwardingPolicy -> << Leaf("5.2", Mid(k.v, 2, k.v[1]) \o <<0>>) >>
          [] k.t = IE_PFCPSMReqFlags -> << Leaf("5.3", <<k.v[1]>>) >>
          [] OTHER -> << >>
  IN KidLeaves(fp, one)
FarLeaves(n) ==
  LET one(k) ==
        CASE k.t = IE_FARID -> << Leaf("3", Rev(k.v)) >>
          [] k.t = IE_ApplyAction -> << Leaf("4", Pad(Take(k.v, IF Len(k.v) > 2 THEN 2 ELSE Len(k.v)), 2)) >>
          [] k.t \in {IE_FwdParams, IE_UpdFwdParams} ->
               IF FwdLeaves(k) = << >> THEN << >> ELSE FwdLeaves(k)
          [] k.t = IE_BARID -> << Leaf("8", <<k.v[1]>>) >>
          [] OTHER -> << >>
  IN KidLeaves(n, one)

RateLeaves(k, P) ==   \* 40-bit uplink and downlink rates: high 32 bits and low 8 bits each
  << Leaf(P \o "1", Rev(Mid(k.v, 1, 4))), Leaf(P \o "2", <<k.v[5]>>),
     Leaf(P \o "3", Rev(Mid(k.v, 6, 4))), Leaf(P \o "4", <<k.v[10]>>) >>
QerLeaves(n) ==
  LET one(k) ==
        CASE k.t = IE_QERID -> << Leaf("3", Rev(k.v)) >>
          [] k.t = IE_QERCorrelationID -> << Leaf("7", Rev(k.v)) >>
          [] k.t = IE_GateStatus -> << Leaf("4", <<k.v[1]>>) >>
          [] k.t = IE_MBR -> RateLeaves(k, "5.")
          [] k.t = IE_GBR -> RateLeaves(k, "6.")
          [] k.t = IE_QFI -> << Leaf("9", <<k.v[1] % 64>>) >>
          [] k.t = IE_RQI -> << Leaf("8", <<k.v[1] % 2>>) >>
          [] k.t = IE_PPI -> << Leaf("10", <<k.v[1] % 8>>) >>
          [] OTHER -> << >>
  IN KidLeaves(n, one)

VolLeaves(k, P) ==   \* flags, then the volumes its flag subset selects (total, uplink, downlink), 8 octets each
  LET f == k.v[1]
      nth(i) == Rev(Mid(k.v, 2 + 8 * (i - 1), 8))
      tov == Bit(f, 1)   ulv == Bit(f, 2)   dlv == Bit(f, 4)
  IN << Leaf(P \o "1", <<f>>) >>
     \o (IF tov THEN << Leaf(P \o "2", nth(1)) >> ELSE << >>)
     \o (IF ulv THEN << Leaf(P \o "3", nth(1 + (IF tov THEN 1 ELSE 0))) >> ELSE << >>)
     \o (IF dlv THEN << Leaf(P \o "4", nth(1 + (IF tov THEN 1 ELSE 0) + (IF ulv THEN 1 ELSE 0))) >> ELSE << >>)
UrrLeaves(n) ==
  LET one(k) ==
        CASE k.t = IE_URRID -> << Leaf("3", Rev(k.v)) >>
          [] k.t = IE_MeasurementMethod -> << Leaf("4", <<k.v[1]>>) >>
          [] k.t = IE_ReportingTriggers -> << Leaf("5", Pad(Take(k.v, IF Len(k.v) > 3 THEN 3 ELSE Len(k.v)), 4)) >>
          [] k.t = IE_MeasurementInformation -> << Leaf("7", Pad(<<k.v[1]>>, 8)) >>
          [] k.t = IE_VolumeThreshold -> VolLeaves(k, "9.")
          [] k.t = IE_VolumeQuota -> VolLeaves(k, "10.")
          [] OTHER -> << >>     \* the measurement period attribute is not part of the statement (see DESIGN)
  IN KidLeaves(n, one)
BarLeaves(n) ==
  LET one(k) ==
        CASE k.t = IE_BARID -> << Leaf("3", <<k.v[1]>>) >>
          [] k.t = IE_DDNDelay -> << Leaf("4", <<k.v[1]>>) >>
          [] k.t = IE_SuggestedBufferingPackets -> << Leaf("5", Pad(<<k.v[1]>>, 2)) >>
          [] OTHER -> << >>
  IN KidLeaves(n, one)

SeidPath(kind) == CASE kind = "pdr" -> "11" [] kind = "far" -> "7" [] kind = "qer" -> "13" [] kind = "urr" -> "8" [] kind = "bar" -> "6"
KindOf(n) == CASE n.t \in {IE_CreatePDR, IE_UpdatePDR} -> "pdr" [] n.t \in {IE_CreateFAR, IE_UpdateFAR} -> "far"
               [] n.t \in {IE_CreateQER, IE_UpdateQER} -> "qer" [] n.t \in {IE_CreateURR, IE_UpdateURR} -> "urr"
               [] n.t \in {IE_CreateBAR, IE_UpdateBAR} -> "bar"
IsCreate(n) == n.t \in {IE_CreatePDR, IE_CreateFAR, IE_CreateQER, IE_CreateURR, IE_CreateBAR}

\* the whole expected request: link, SEID and the rule's leaves
Translate(n, seidLE, link) ==
  << Leaf("1", link), Leaf(SeidPath(KindOf(n)), seidLE) >> \o
  (CASE KindOf(n) = "pdr" -> PdrLeaves(n, IsCreate(n))
     [] KindOf(n) = "far" -> FarLeaves(n)
     [] KindOf(n) = "qer" -> QerLeaves(n)
     [] KindOf(n) = "urr" -> UrrLeaves(n)
     [] KindOf(n) = "bar" -> BarLeaves(n))

\* bags of leaves
BagOf(s) == [x \in {s[i] : i \in DOMAIN s} |-> Cardinality({i \in DOMAIN s : s[i] = x})]
\* paths the statement does not speak about
Ignored(p) == p \in {"6u"}
=============================================================================
