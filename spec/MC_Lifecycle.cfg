SPECIFICATION Spec
CONSTANTS
  Peers = {"p1", "p2"}
  NodeIds = {"n1", "n2"}
  CpSeids = {"7"}
  EstOps <- LcEstOps
  ModOps <- LcModOps
  FaultSets = {{}, {0}, {1}}
  SeidLits = {"0", "1", "9"}
  Kinds = {"assoc", "est", "mod", "del", "report", "rptrsp", "takeover", "dup"}
  MaxSlots = 3
  MaxTurns = 5
  MaxRt = 1
  TxSeq0 = 0
  SeqNos = {}
INVARIANT NoVerdict
VIEW View
CHECK_DEADLOCK FALSE
