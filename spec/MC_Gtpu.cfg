SPECIFICATION Spec
CONSTANTS
  Teids <- McTeids
  PLens = {0, 1, 2, 3, 4, 5, 7, 8, 9, 1399, 1400, 1401, 1499, 1500}
INVARIANT RefWellFormed
CHECK_DEADLOCK FALSE
