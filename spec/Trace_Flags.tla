----------------------------- MODULE Trace_Flags -----------------------------
(* Trace validation for C19: what the real decoders / encoders answered for each word must be what
   the tables of TS 29.244 say. *)
EXTENDS Flags, Json, IOUtils, SequencesExt
Trace == ndJsonDeserialize(IOEnv.VERIF_TRACE)
VARIABLES l, viol
V(ok, tag) == IF ok THEN {} ELSE {tag}
Rng(s) == {s[i] : i \in DOMAIN s}
Judge(L) ==
  LET set == Rng(L.set) IN
  IF L.panic # "" THEN {"C19:flag codec faulted"}
  ELSE IF L.missing # <<>> THEN {"INFRA:accessor missing for a name of the specification's table"}
  ELSE CASE L.f = "aa" ->
         IF L.n < 1 THEN V(L.err, "C19:too-short Apply Action accepted")
         ELSE V(~L.err /\ set = Decode(ApplyActionTbl, Trunc(L.w, IF L.n > 2 THEN 2 ELSE L.n)),
                "C19:Apply Action flags decoded differently from TS 29.244 8.2.26")
    [] L.f = "rt" ->
         IF L.n < 2 THEN V(L.err, "C19:too-short Reporting Triggers accepted")
         ELSE UNION { V(~L.err /\ set = Decode(ReportingTriggersTbl, Trunc(L.w, IF L.n > 3 THEN 3 ELSE L.n)),
                        "C19:Reporting Triggers decoded differently from TS 29.244 8.2.19"),
                      V(L.enclen = 3 /\ L.enc = Trunc(L.w, IF L.n > 3 THEN 3 ELSE L.n),
                        "C19:Reporting Triggers re-encoded differently") }
    [] L.f = "urt" ->
         UNION { V(set = Decode(UsageReportTriggerTbl, L.w), "C19:Usage Report Trigger accessors differ from TS 29.244 8.2.41"),
                 V(L.enclen = 3 /\ L.enc = Trunc(L.w, 3), "C19:Usage Report Trigger encoded differently") }
    [] L.f = "map" ->
         V(set = CauseMap(L.w) /\ L.enc = Encode(UsageReportTriggerTbl, CauseMap(L.w)),
           "C19:reporting-trigger cause mapped to another usage-report trigger than the one of the same name")
    [] L.f = "vm" ->
         V(~L.err /\ Decode(VolumeMeasurementTbl, L.enc) = VolFlags(L.w, L.mnop) /\ Rng(L.fields) = VolFlags(L.w, L.mnop) /\ L.enc < 64,
           "C19:Volume Measurement flags / fields differ from TS 29.244 8.2.40")
    [] OTHER -> {"INFRA:unknown vector"}
Init == l = 1 /\ viol = <<>>
Step == /\ l <= Len(Trace)
        /\ LET v == Judge(Trace[l]) IN viol' = IF v = {} THEN viol ELSE Append(viol, [tr |-> Trace[l].id, i |-> l, tags |-> v])
        /\ l' = l + 1
Finish == /\ l = Len(Trace) + 1
          /\ JsonSerialize(IOEnv.VERIF_VERDICT, [lines |-> Len(Trace), viol |-> viol])
          /\ l' = l + 1 /\ UNCHANGED viol
TraceSpec == Init /\ [][Step \/ Finish]_<<l, viol>>
TraceAccepted == TLCGet("stats").diameter = Len(Trace) + 2
=============================================================================
