------------------------------ MODULE Trace_L2 ------------------------------
(* Trace validation of full-stack executions (L2 executor) against the monitors of MonL2.tla, and - for executions of
   paths printed by the model checker - lock-step comparison of every recorded step with what the ideal model UpfL2
   predicted for it (the prediction travels with the event: e.exp).  A difference is a DIVERGENCE between
   specification and code: reported, never a verdict. *)
EXTENDS MonL2, Json, IOUtils
CONSTANT PktScale
Trace == ndJsonDeserialize(IOEnv.VERIF_TRACE)
VARIABLES l, h, viol, div, ncmp, off   \* off: the model's SEID allocation can no longer be assumed (see Step)
TraceInit == l = 1 /\ h = H0 /\ viol = <<>> /\ div = <<>> /\ ncmp = 0 /\ off = FALSE
Step == /\ l <= Len(Trace)
        /\ LET L == Trace[l]
               r == StepL2(h, L)
               cmp == L.e.t # "init" /\ L.e.exp # <<>> /\ L.fatal = "" /\ ~h.skip /\ ~off
               \* a re-association that releases two or more sessions frees their SEIDs in Go map order: from then on the
               \* model's prediction of the next UP SEIDs (and everything addressed with them) is one of several legal ones
               ambiguous == L.e.t = "assoc" /\ Cardinality({x \in h.live : x.node = L.e.node}) >= 2
           IN /\ h' = r.h
              /\ viol' = IF r.v = {} THEN viol ELSE Append(viol, [tr |-> L.tr, i |-> L.i, tags |-> r.v])
              /\ off' = IF L.e.t = "init" THEN FALSE ELSE (off \/ ambiguous)
              /\ ncmp' = IF cmp THEN ncmp + 1 ELSE ncmp
              /\ div' = IF cmp /\ ~SameL2(L.e.exp[1], L, PktScale)
                         THEN Append(div, [tr |-> L.tr, i |-> L.i, t |-> L.e.t, what |-> WhatL2(L.e.exp[1], L, PktScale),
                                           model |-> DiffL2(L.e.exp[1], L, PktScale).model, code |-> DiffL2(L.e.exp[1], L, PktScale).code])
                         ELSE div
        /\ l' = l + 1
Finish == /\ l = Len(Trace) + 1
          /\ JsonSerialize(IOEnv.VERIF_VERDICT, [lines |-> Len(Trace), viol |-> viol, div |-> div, compared |-> ncmp])
          /\ l' = l + 1 /\ UNCHANGED <<h, viol, div, ncmp, off>>
TraceSpec == TraceInit /\ [][Step \/ Finish]_<<l, h, viol, div, ncmp, off>>
TraceAccepted == TLCGet("stats").diameter = Len(Trace) + 2
=============================================================================
