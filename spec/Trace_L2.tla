------------------------------ MODULE Trace_L2 ------------------------------
(* Trace validation of full-stack executions (L2 executor) against the monitors of MonL2.tla. *)
EXTENDS MonL2, Json, IOUtils
Trace == ndJsonDeserialize(IOEnv.VERIF_TRACE)
VARIABLES l, h, viol
TraceInit == l = 1 /\ h = H0 /\ viol = <<>>
Step == /\ l <= Len(Trace)
        /\ LET L == Trace[l]
               r == StepL2(h, L)
           IN /\ h' = r.h
              /\ viol' = IF r.v = {} THEN viol ELSE Append(viol, [tr |-> L.tr, i |-> L.i, tags |-> r.v])
        /\ l' = l + 1
Finish == /\ l = Len(Trace) + 1
          /\ JsonSerialize(IOEnv.VERIF_VERDICT, [lines |-> Len(Trace), viol |-> viol])
          /\ l' = l + 1 /\ UNCHANGED <<h, viol>>
TraceSpec == TraceInit /\ [][Step \/ Finish]_<<l, h, viol>>
TraceAccepted == TLCGet("stats").diameter = Len(Trace) + 2
=============================================================================
