--------------------------- MODULE Trace_FlowDesc ---------------------------
(* Trace validation for C16: the real parser must return the filter the rule denotes, the real
   netlink encoder must pack exactly that filter (exchanged for uplink), and no string may fault. *)
EXTENDS FlowDesc, Json, IOUtils, SequencesExt
Trace == ndJsonDeserialize(IOEnv.VERIF_TRACE)
VARIABLES l, viol
V(ok, tag) == IF ok THEN {} ELSE {tag}
Same(f, d) == /\ ~f.err /\ f.action = d.action /\ f.dir = d.dir /\ f.proto = d.proto
              /\ f.src = d.src /\ f.smask = d.smask /\ f.dst = d.dst /\ f.dmask = d.dmask
              /\ f.sports = d.sports /\ f.dports = d.dports
Judge(L) ==
  IF L.panic # "" THEN {"C16:flow-description handling faulted"}
  ELSE IF ~L.hasrule THEN {}
  ELSE UNION {
    V(Same(L.parsed, Denote(L.rule)), "C16:parsed filter differs from what the rule denotes"),
    V(Same(L.packed, Packed(L.rule, L.swap)), "C16:packed filter handed to the data plane differs from what the rule denotes"),
    V(L.agree \/ L.packed.err, "INFRA:independent decoder and go-gtp5gnl DecodeFlowDesc disagree") }
Init == l = 1 /\ viol = <<>>
Step == /\ l <= Len(Trace)
        /\ LET v == Judge(Trace[l]) IN viol' = IF v = {} THEN viol ELSE Append(viol, [tr |-> Trace[l].id, i |-> l, tags |-> v])
        /\ l' = l + 1
Finish == /\ l = Len(Trace) + 1
          /\ JsonSerialize(IOEnv.VERIF_VERDICT, [lines |-> Len(Trace), viol |-> viol])
          /\ l' = l + 1 /\ UNCHANGED viol
TraceSpec == Init /\ [][Step \/ Finish]_<<l, viol>>
TraceAccepted == TLCGet("stats").diameter = Len(Trace) + 2
=============================================================================
