------------------------------- MODULE Mon -------------------------------
(***************************************************************************)
(* Property monitors for the PFCP level of go-upf (harness level L1).      *)
(*                                                                         *)
(* A monitor is the property, literally.  It keeps GHOST state `g' that is *)
(* a function of the INPUTS (abstract requests, injected time-outs and     *)
(* report notifications) and of the ENVIRONMENT's answers (results of the  *)
(* data-plane calls) only, and it constrains the OUTPUTS produced in a     *)
(* step (datagrams, data-plane calls, bookkeeping snapshot).               *)
(*                                                                         *)
(* One step is one turn of the PFCP event loop, given as a record L:       *)
(*   L.e     the event (input)                                             *)
(*   L.calls the data-plane calls of the step, in order, with results      *)
(*   L.out   the datagrams emitted in the step                             *)
(*   L.snap  the bookkeeping snapshot at the loop's next idle point        *)
(*   L.fatal non-empty: the process tried to exit / a panic was recovered  *)
(*                                                                         *)
(* Verdict(g, L)  is the set of "Cxx:reason" strings violated by the step, *)
(* GNext(g, L)    the next ghost state.                                    *)
(* The same operators judge the steps of the ideal model (MC_Upf.tla) and  *)
(* the steps recorded from the implementation (Trace_Upf.tla).             *)
(***************************************************************************)
EXTENDS Integers, Sequences, FiniteSets, SequencesExt, TLC

\* ------------------------------------------------------------------ constants of the protocol
MT_HBRSP   == 2
MT_ASRSP   == 6
MT_ESTRSP  == 51
MT_MODRSP  == 53
MT_DELRSP  == 55
MT_SRREQ   == 56
CAUSE_OK   == 1
CAUSE_NOSESS == 65
TRIG_IMMER == 128       \* usage-report-trigger: bit 8 of octet 5
TRIG_TERMR == 2048      \* bit 4 of octet 6
ACT_BUFF   == 4
ACT_NOCP   == 8
SeqSpace   == 16777216  \* 2^24

\* node n_i is reached at peer p_i (reports are sent to "<node id>:8805")
NodePeer(n) == CASE n = "n1" -> "p1" [] n = "n2" -> "p2" [] n = "n3" -> "p3" [] n = "n4" -> "p4" [] n = "n5" -> "p5" [] OTHER -> "none"
RespTypes == {MT_HBRSP, MT_ASRSP, MT_ESTRSP, MT_MODRSP, MT_DELRSP}

\* ------------------------------------------------------------------ small helpers
Rng(s) == {s[i] : i \in DOMAIN s}
BitSet(x, b) == (x \div b) % 2 = 1
V(ok, tag) == IF ok THEN {} ELSE {tag}
NoDup(s) == Cardinality(Rng(s)) = Len(s)
KeyStr(p, q) == p \o "-" \o ToString(q)

G0 == [ maxrt |-> 0, assoc |-> {}, live |-> {}, nsess |-> 0,
        created |-> {}, ever |-> {}, dp |-> {}, urr |-> {}, refs |-> {},
        c12off |-> {}, rx |-> {}, tx |-> {}, rts |-> "",
        taint |-> FALSE, tainted |-> {}, skip |-> FALSE ]

LiveSeids(g)  == {s.seid : s \in g.live}
SessOf(g, sd) == CHOOSE s \in g.live : s.seid = sd
AssocNodes(g) == {a.node : a \in g.assoc}
AddrOfNode(g, n) == IF n \in AssocNodes(g) THEN (CHOOSE a \in g.assoc : a.node = n).peer ELSE "none"
KeyOf(c) == <<c.seid, c.kind, c.id>>
IsReqEv(e) == e.t \in {"hb", "assoc", "assocupd", "assocrel", "est", "mod", "del"}
IsRspEv(e) == e.t \in {"rptrsp", "hbrsp"}
RxOf(g, e) == {r \in g.rx : r.peer = e.peer /\ r.seq = e.seq}
TxOf(g, p, q) == {t \in g.tx : t.peer = p /\ t.seq = q}
IsDup(g, e) == IsReqEv(e) /\ RxOf(g, e) # {}

Rsps(L) == SelectSeq(L.out, LAMBDA o : o.mt \in RespTypes)
Srrs(L) == SelectSeq(L.out, LAMBDA o : o.mt = MT_SRREQ)
MyRsps(L) == SelectSeq(L.out, LAMBDA o : o.mt \in RespTypes /\ o.to = L.e.peer /\ o.seq = L.e.seq)

\* ------------------------------------------------------------------ data-plane ghost from the observed calls
\* res: "ok", "err" (no effect), "err+" (a create that reported an error after the rule had been installed),
\* "lax" (permissive data plane: a query for a URR it has removed was answered with a report; no effect on the table)
DpStep(dp, c) == IF c.res \in {"ok", "err+"} /\ c.op = "create" THEN dp \cup {KeyOf(c)}
                 ELSE IF c.res = "ok" /\ c.op = "remove" THEN dp \ {KeyOf(c)} ELSE dp
DpAfter(dp, calls) == FoldLeft(DpStep, dp, calls)
\* the twin itself must behave like a table (else the run is void: infrastructure, not a verdict)
TwinOk(dp, calls) ==
  FoldLeft(LAMBDA acc, c :
            [ok |-> acc.ok /\ (IF c.res = "lax" THEN c.op = "query" /\ c.kind = "urr" /\ KeyOf(c) \notin acc.dp
                             ELSE c.res # "err" => IF c.op = "create" THEN KeyOf(c) \notin acc.dp ELSE KeyOf(c) \in acc.dp),
             dp |-> DpStep(acc.dp, c)],
          [ok |-> TRUE, dp |-> dp], calls).ok

CreateOps(e)      == {o \in Rng(e.ops) : o.op = "create"}
CreateKeys(e, sd) == {<<sd, o.kind, o.id>> : o \in CreateOps(e)}
RemovedOk(calls)  == {KeyOf(c) : c \in {x \in Rng(calls) : x.op = "remove" /\ x.res = "ok"}}
CreatedOk(calls)  == {KeyOf(c) : c \in {x \in Rng(calls) : x.op = "create" /\ x.res \in {"ok", "err+"}}}
AnyFailed(calls)  == \E c \in Rng(calls) : c.res \notin {"ok", "lax"}

\* ------------------------------------------------------------------ which sessions does the event address / end?
EstAccepted(g, e) == e.t = "est" /\ e.node \in AssocNodes(g) /\ e.cp # ""
NewSeid(L) == IF MyRsps(L) # <<>> /\ MyRsps(L)[1].mt = MT_ESTRSP THEN MyRsps(L)[1].fseid ELSE ""

\* sessions a SEID-0 Session Report Response may end: control-plane SEID of the answered request, address of the node
Seid0Cands(g, e) ==
  IF e.t = "rptrsp" /\ e.seid = "0" /\ TxOf(g, e.peer, e.seq) # {}
  THEN LET t == CHOOSE t \in TxOf(g, e.peer, e.seq) : TRUE
       IN {s \in g.live : s.cp = t.cp /\ AddrOfNode(g, s.node) = e.peer}
  ELSE {}

\* sessions that END in this step according to the statements of C01 / C05
Ended(g, L) ==
  LET e == L.e IN
  IF IsDup(g, e) THEN {} ELSE
  CASE e.t = "del" /\ e.seid \in LiveSeids(g) -> {SessOf(g, e.seid)}
    [] e.t = "assoc" /\ e.node # "" -> {s \in g.live : s.node = e.node}
    [] e.t = "rptrsp" /\ Seid0Cands(g, e) # {} ->
         \* several sessions of one peer may share a control-plane SEID: one of them ends; the snapshot tells which
         LET cands == Seid0Cands(g, e)
             gone  == {s \in cands : s.seid \notin Rng(L.snap.live)}
         IN IF Cardinality(gone) = 1 THEN gone
            ELSE {CHOOSE s \in cands : \A o \in cands : s.ord <= o.ord}
    [] OTHER -> {}

\* SEIDs a data-plane call may carry in this step
Addressed(g, L) ==
  LET e == L.e IN
  IF IsDup(g, e) THEN {}
  ELSE CASE e.t \in {"mod", "del"} /\ e.seid \in LiveSeids(g) -> {e.seid}
         [] EstAccepted(g, e) -> {NewSeid(L)} \ {""}
         [] OTHER -> {s.seid : s \in Ended(g, L)}

\* ------------------------------------------------------------------ usage-report bookkeeping
UrrOf(urrs, sd, u) == {x \in urrs : x.seid = sd /\ x.id = u}
RefsOf(refs, sd, u) == {r \in refs : r[1] = sd /\ r[3] = u}
\* the reports the UPF has to account for: those of calls on rules the data plane holds. What a permissive data plane
\* answers for a URR it has already removed ("lax") is a report for an unknown URR: it must NOT be forwarded (C10), and
\* the URR's final usage has been returned already (C12: once)
ProducedByCalls(calls0) ==
  LET calls == SelectSeq(calls0, LAMBDA c : c.res # "lax") IN
  FlattenSeq([i \in DOMAIN calls |-> [j \in DOMAIN calls[i].reps |->
     [urr |-> calls[i].reps[j].urr, trig |-> calls[i].reps[j].trig, vals |-> calls[i].reps[j].vals]]])
ProducedByEvent(e) ==
  LET us == SelectSeq(e.reports, LAMBDA r : r.k = "usar")
  IN [j \in DOMAIN us |-> [urr |-> us[j].urr, trig |-> us[j].trig, vals |-> us[j].vals]]
\* usage-report IEs emitted in a list of datagrams, in emission order
Emitted(outs) ==
  FlattenSeq([i \in DOMAIN outs |-> [j \in DOMAIN outs[i].rpts |->
     [urr |-> outs[i].rpts[j].urr, seqn |-> outs[i].rpts[j].seqn, trig |-> outs[i].rpts[j].trig,
      vf |-> outs[i].rpts[j].vf, dur |-> outs[i].rpts[j].dur, vals |-> outs[i].rpts[j].vals]]])

\* URR table after the Create / Update URR IEs of the request (method / MNOP as requested, counter 0)
UrrAfterOps(urrs, e, sd) ==
  FoldLeft(LAMBDA acc, o :
     IF o.kind # "urr" THEN acc
     ELSE IF o.op = "create" THEN
        {x \in acc : ~(x.seid = sd /\ x.id = o.id)} \cup
        {[seid |-> sd, id |-> o.id,
          volum |-> (o.meth >= 0 /\ BitSet(o.meth, 2)), durat |-> (o.meth >= 0 /\ BitSet(o.meth, 1)),
          mnop |-> (o.minfo >= 0 /\ BitSet(o.minfo, 16)),
          seqn |-> 0,
          \* a Create for a URR that is still known: the statement does not say which counter applies
          loose |-> \E x \in acc : x.seid = sd /\ x.id = o.id]}
     ELSE IF o.op = "update" THEN
        {IF x.seid = sd /\ x.id = o.id THEN
            [x EXCEPT !.volum = IF o.meth >= 0 THEN BitSet(o.meth, 2) ELSE @,
                      !.durat = IF o.meth >= 0 THEN BitSet(o.meth, 1) ELSE @,
                      !.mnop  = IF o.minfo >= 0 THEN BitSet(o.minfo, 16) ELSE @]
         ELSE x : x \in acc}
     ELSE acc,
     \* handler order: all Create URR IEs, then all Update URR IEs
     urrs, SelectSeq(e.ops, LAMBDA o : o.op = "create") \o SelectSeq(e.ops, LAMBDA o : o.op = "update"))

\* C11: walk the emitted usage-report IEs of session sd in emission order
SeqnWalk(urrs, sd, ems) ==
  FoldLeft(LAMBDA acc, r :
     LET xs == UrrOf(acc.urr, sd, r.urr) IN
     IF xs = {} THEN [acc EXCEPT !.unknown = @ \cup {r.urr}]
     ELSE LET x == CHOOSE x \in xs : TRUE IN
          [urr |-> (acc.urr \ {x}) \cup {[x EXCEPT !.seqn = r.seqn + 1, !.loose = FALSE]},
           bad |-> acc.bad \cup (IF x.loose \/ r.seqn = x.seqn THEN {} ELSE {r.urr}),
           unknown |-> acc.unknown],
     [urr |-> urrs, bad |-> {}, unknown |-> {}], ems)

\* C10: an emitted IE carries exactly the values of the produced report it stands for, with the
\* measurement IEs selected by the URR's measurement method / information
ValsMatch(r, p, x) ==
  /\ r.vals.st = p.vals.st /\ r.vals.et = p.vals.et
  /\ IF x.volum THEN /\ r.vf = (IF x.mnop THEN 63 ELSE 7)
                     /\ r.vals.tv = p.vals.tv /\ r.vals.uv = p.vals.uv /\ r.vals.dv = p.vals.dv
                     /\ (x.mnop => r.vals.tp = p.vals.tp /\ r.vals.up = p.vals.up /\ r.vals.dp = p.vals.dp)
     ELSE r.vf = -1
  /\ IF x.durat THEN r.dur /\ r.vals.du = p.vals.du ELSE ~r.dur

\* produced reports (for known URRs) and emitted IEs must correspond one to one (token = start time)
Delivered(ems, prod, urrs, sd) ==
  LET known == SelectSeq(prod, LAMBDA p : UrrOf(urrs, sd, p.urr) # {})
      \* emitted in the order produced (the usual case): compare position by position - linear, for notifications with
      \* hundreds of reports; any other order: search
      aligned == Len(ems) = Len(known) /\ \A i \in DOMAIN ems : known[i].urr = ems[i].urr /\ known[i].vals.st = ems[i].vals.st
  IN /\ Len(ems) = Len(known)
     /\ IF aligned
        THEN \A i \in DOMAIN ems : ValsMatch(ems[i], known[i], CHOOSE x \in UrrOf(urrs, sd, ems[i].urr) : TRUE)
        ELSE \A i \in DOMAIN ems :
               \E j \in DOMAIN known :
                  /\ known[j].urr = ems[i].urr /\ known[j].vals.st = ems[i].vals.st
                  /\ ValsMatch(ems[i], known[j], CHOOSE x \in UrrOf(urrs, sd, ems[i].urr) : TRUE)
     /\ Cardinality({ems[i].vals.st : i \in DOMAIN ems}) = Len(ems)

\* ------------------------------------------------------------------ PDR <-> URR relation (C12)
PdrKnown(created, sd, p) == <<sd, "pdr", p>> \in created
\* the relation after the PDR IEs of the request, in handler order (create, remove, update)
RefsAfterOps(refs, created, e, sd) ==
  LET step(acc, o) ==
        IF o.kind # "pdr" THEN acc
        ELSE IF o.op = "create" THEN
               {r \in acc : ~(r[1] = sd /\ r[2] = o.id)} \cup {<<sd, o.id, u>> : u \in Rng(o.urrs)}
        ELSE IF o.op = "update" /\ (PdrKnown(created, sd, o.id) \/ \E c \in CreateOps(e) : c.kind = "pdr" /\ c.id = o.id) THEN
               {r \in acc : ~(r[1] = sd /\ r[2] = o.id)} \cup {<<sd, o.id, u>> : u \in Rng(o.urrs)}
        ELSE IF o.op = "remove" THEN {r \in acc : ~(r[1] = sd /\ r[2] = o.id)}
        ELSE acc
      sel(op) == SelectSeq(e.ops, LAMBDA o : o.op = op)
  IN FoldLeft(step, refs, sel("create") \o sel("remove") \o sel("update"))

\* histories on which the statement of C12 is silent (see DESIGN.md 3.5): the session is exempted from then on
C12Loose(g, e, sd) ==
  \/ \E o \in Rng(e.ops) : o.kind = "pdr" /\ o.op = "create" /\ PdrKnown(g.created, sd, o.id)   \* id re-used while live
  \/ \E o \in Rng(e.ops) : o.kind = "urr" /\ o.op = "create" /\ <<sd, "urr", o.id>> \in g.created
  \/ \E o \in Rng(e.ops) : o.kind = "pdr" /\ o.op = "update" /\ o.urrs = <<>>   \* "no URR ID" = unchanged or empty?
  \/ Cardinality({o \in Rng(e.ops) : o.kind = "pdr"}) # Len(SelectSeq(e.ops, LAMBDA o : o.kind = "pdr"))
  \/ \E o1, o2 \in Rng(e.ops) : o1.kind = "pdr" /\ o2.kind = "pdr" /\ o1.id = o2.id /\ o1.op # o2.op

\* Several Remove/Update PDR IEs in ONE request may leave a URR unreferenced between two of them although it is
\* referenced before and after the request; the statement speaks of requests, not of IE order: such a step is
\* not judged (the relation after the step is still tracked)
C12StepLoose(e) == Len(SelectSeq(e.ops, LAMBDA o : o.kind = "pdr" /\ o.op \in {"remove", "update"})) >= 2

\* ================================================================== VERDICT
\* ------------------------------------------------------------------ ghost after the step (input-determined parts)
LiveAfter(g, L) ==
  LET e == L.e IN
  IF IsDup(g, e) THEN g.live
  ELSE LET kept == g.live \ Ended(g, L) IN
       IF EstAccepted(g, e) /\ NewSeid(L) # ""
       THEN kept \cup {[seid |-> NewSeid(L), cp |-> e.cp, node |-> e.node, ord |-> g.nsess + 1]}
       ELSE IF e.t = "mod" /\ e.seid \in LiveSeids(g) /\ e.node \notin {"", "!bad"}
       THEN LET old == SessOf(g, e.seid).node IN {IF s.node = old THEN [s EXCEPT !.node = e.node] ELSE s : s \in kept}
       ELSE kept

\* A Modification Request whose Node ID IE cannot be decoded ("!bad") may go unanswered; then it must leave no trace (C08)
Unanswered(L) == L.e.t = "mod" /\ L.e.node = "!bad" /\ MyRsps(L) = <<>>
TargetSeid(g, L) ==   \* the session whose rules the request's IEs speak about
  LET e == L.e IN
  IF Unanswered(L) THEN ""
  ELSE IF e.t = "mod" /\ e.seid \in LiveSeids(g) THEN e.seid
  ELSE IF EstAccepted(g, e) THEN NewSeid(L) ELSE ""

CreatedAfter(g, L) ==
  LET sd == TargetSeid(g, L)
      endedSeids == {s.seid : s \in Ended(g, L)}
      add == IF sd # "" /\ ~IsDup(g, L.e) THEN CreateKeys(L.e, sd) ELSE {}
  IN {k \in (g.created \cup add) \ RemovedOk(L.calls) : k[1] \notin endedSeids}
EverAfter(g, L) ==
  LET sd == TargetSeid(g, L)
      add == IF sd # "" /\ ~IsDup(g, L.e) THEN CreateKeys(L.e, sd) ELSE {}
  IN g.ever \cup add

\* ------------------------------------------------------------------ C01 / C05: data-plane calls and rule ownership
VCalls(g, L) ==
  LET A    == Addressed(g, L)
      ever == EverAfter(g, L)
      dp2  == DpAfter(g.dp, L.calls)
      live2 == {s.seid : s \in LiveAfter(g, L)}
      cr2  == CreatedAfter(g, L)
  IN UNION {
       V(\A c \in Rng(L.calls) : c.seid \in A, "C01:data-plane call outside the addressed session"),
       V(\A c \in Rng(L.calls) : c.seid \in A \/ c.seid \notin LiveSeids(g), "C05:data-plane call tagged with another session's SEID"),
       V(\A c \in Rng(L.calls) : c.op \in {"update", "remove", "query"} => KeyOf(c) \in ever,
         "C01:update/remove/query for a rule the session never created"),
       \* ... nor for a rule whose removal succeeded in an earlier request (within one request the order of
       \* the IEs is the implementation's business, e.g. session close removes a URR and then its PDRs)
       V(\A c \in Rng(L.calls) : c.op \in {"update", "remove", "query"} =>
            KeyOf(c) \in g.created \cup (IF TargetSeid(g, L) # "" THEN CreateKeys(L.e, TargetSeid(g, L)) ELSE {}),
         "C01:update/remove/query for a rule that an earlier request removed"),
       V(\A r \in dp2 : r[1] \in live2, "C01:rule in the data plane without a live session"),
       V(\A r \in dp2 : r[1] \in live2 => r \in cr2, "C01:rule in the data plane not requested by a pending Create") }

\* ------------------------------------------------------------------ C04 / C05: session table bookkeeping
VTable(g, L) ==
  LET want == {s.seid : s \in LiveAfter(g, L)}
      have == Rng(L.snap.live)
      A    == Addressed(g, L)
  IN UNION {
       V(have \subseteq want, "C04:session table holds a session that should not exist"),
       V((want \ have) \cap A = {}, "C04:addressed session missing from the session table"),
       V((want \ have) \ A = {}, "C05:a session not addressed by the message was removed"),
       V((want \ have) \ A = {}, "C04:the SEID issued to a live session no longer resolves to it (session dropped by a message for another SEID / node)"),
       V(NoDup(L.snap.free), "C04:free list holds a SEID twice"),
       V(Rng(L.snap.free) \cap have = {}, "C04:free list holds the SEID of a live session"),
       V("0" \notin have, "C04:SEID 0 in use") }

\* ------------------------------------------------------------------ C06 / C09: transaction bookkeeping (released)
RxAfter(g, L) ==
  LET e == L.e IN
  IF IsReqEv(e) /\ ~IsDup(g, e)
  THEN g.rx \cup {[peer |-> e.peer, seq |-> e.seq, hex |-> IF MyRsps(L) # <<>> THEN MyRsps(L)[1].hex ELSE ""]}
  ELSE IF e.t = "timeout" /\ e.tt = "rx" THEN {r \in g.rx : ~(r.peer = e.tpeer /\ r.seq = e.tseq)}
  ELSE g.rx
TxAfter(g, L) ==
  LET e == L.e IN
  IF e.t = "report"
  THEN g.tx \cup {[peer |-> o.to, seq |-> o.seq, hex |-> o.hex, n |-> 0, cp |-> o.seid] : o \in Rng(Srrs(L))}
  ELSE IF IsRspEv(e) THEN g.tx \ TxOf(g, e.peer, e.seq)
  ELSE IF e.t = "timeout" /\ e.tt = "tx" THEN
       {t \in {IF t.peer = e.tpeer /\ t.seq = e.tseq THEN [t EXCEPT !.n = @ + 1] ELSE t : t \in g.tx} : t.n <= g.maxrt}
  ELSE g.tx
VBook(g, L) ==
  LET rx2 == RxAfter(g, L)
      tx2 == TxAfter(g, L)
  IN UNION {
       V(\A r \in Rng(L.snap.rx) : \E x \in rx2 : KeyStr(x.peer, x.seq) = r.k,
         "C06:bookkeeping of a request kept after its retention window (or for a request never received)"),
       V(\A t \in Rng(L.snap.tx) : \E x \in tx2 : x.peer = t.peer /\ x.seq = t.wire,
         "C09:bookkeeping of a request kept after it was answered or abandoned") }

\* ------------------------------------------------------------------ C06: duplicates
VDup(g, L) ==
  LET r == CHOOSE r \in RxOf(g, L.e) : TRUE IN
  UNION {
    V(L.calls = <<>>, "C06:retransmitted request reached the data plane again"),
    V(Rng(L.snap.live) = LiveSeids(g), "C06:retransmitted request changed the session table"),
    V(IF r.hex = "" THEN L.out = <<>>
      ELSE Len(L.out) = 1 /\ L.out[1].to = L.e.peer /\ L.out[1].hex = r.hex,
      "C06:retransmitted request not answered with the byte-identical original response") }

\* ------------------------------------------------------------------ C08 (+C04 lookups): the response of a first copy
NoEffect(g, L) == L.calls = <<>> /\ Rng(L.snap.live) = LiveSeids(g)
RtsOk(g, o) == o.rts # "" /\ (g.rts # "" => o.rts = g.rts)
UeipPdrs(e) == {o.id : o \in {x \in CreateOps(e) : x.kind = "pdr" /\ x.ueip}}

VRsp(g, L) ==
  LET e == L.e
      rs == MyRsps(L)
      one == Len(Rsps(L)) = 1 /\ Len(rs) = 1
      r == rs[1]
      confusable == \E x \in g.rx : x.seq = e.seq /\ x.peer # e.peer
      routed == UNION {
         V(Len(Rsps(L)) = Len(rs), "C08:response sent to another address or with another sequence number"),
         V(Len(Rsps(L)) = Len(rs) \/ ~confusable, "C06:request mistaken for a retransmission of another peer's request"),
         V(Srrs(L) = <<>>, "C10:session report request emitted although the data plane produced no report") }
      none == UNION { V(Rsps(L) = <<>>, "C08:unexpected response"),
                      V(NoEffect(g, L), "C08:request not answered left a trace in session or data-plane state") }
      must(cond, tag) == IF ~one THEN {"C08:request not answered exactly once"} \cup
                                      (IF confusable THEN {"C06:request mistaken for a retransmission of another peer's request"} ELSE {})
                         ELSE V(cond, tag)
  IN routed \cup
     CASE e.t = "hb" -> must(r.mt = MT_HBRSP /\ RtsOk(g, r), "C08:heartbeat response / recovery time stamp") \cup V(NoEffect(g, L), "C08:heartbeat changed state")
       [] e.t = "assoc" /\ e.node # "" ->
            must(r.mt = MT_ASRSP /\ r.cause = CAUSE_OK /\ r.node = "upf" /\ RtsOk(g, r),
                 "C08:association setup response (cause / node id / recovery time stamp)")
       [] e.t \in {"assoc", "assocupd", "assocrel"} -> none
       [] EstAccepted(g, e) ->
            must(r.mt = MT_ESTRSP /\ r.hasseid /\ r.seid = e.cp /\ r.cause = CAUSE_OK /\ r.node = "upf"
                   /\ Rng(r.created) = UeipPdrs(e),
                 "C08:establishment response (peer's SEID / cause / node id / created PDRs)")
            \cup (IF one THEN V(r.fseid \notin ({"", "0"} \cup LiveSeids(g)), "C04:UP SEID zero or held by another live session") ELSE {})
            \cup (IF one THEN V(\A k \in g.dp : k[1] # r.fseid, "C04:SEID issued while rules of its previous session are still installed") ELSE {})
       [] e.t = "est" -> none
       [] e.t = "mod" /\ e.seid \in LiveSeids(g) /\ Unanswered(L) -> none
       [] e.t = "mod" /\ e.seid \in LiveSeids(g) ->
            must(r.mt = MT_MODRSP /\ r.hasseid /\ r.seid = SessOf(g, e.seid).cp /\ r.cause = CAUSE_OK,
                 "C08:modification response (peer's SEID / cause)")
            \cup (IF one /\ r.cause = CAUSE_NOSESS THEN {"C04:request for a live SEID answered 'context not found'"} ELSE {})
       [] e.t = "del" /\ e.seid \in LiveSeids(g) ->
            must(r.mt = MT_DELRSP /\ r.hasseid /\ r.seid = SessOf(g, e.seid).cp /\ r.cause = CAUSE_OK,
                 "C08:deletion response (peer's SEID / cause)")
            \cup (IF one /\ r.cause = CAUSE_NOSESS THEN {"C04:request for a live SEID answered 'context not found'"} ELSE {})
       [] e.t \in {"mod", "del"} ->
            must(r.mt = (IF e.t = "mod" THEN MT_MODRSP ELSE MT_DELRSP) /\ r.hasseid /\ r.seid = "0" /\ r.cause = CAUSE_NOSESS,
                 "C08:request for an unknown session not answered 'session context not found' with SEID 0")
            \cup (IF one /\ r.cause = CAUSE_OK THEN {"C04:request for a SEID that addresses no live session was accepted"} ELSE {})
            \cup V(NoEffect(g, L), "C04:request for a SEID that addresses no live session had a side effect")
       [] OTHER -> {}

\* ------------------------------------------------------------------ C02 / C03 at the PFCP level: IEs are handed on
\* An accepted request's Create IE, and its Update IE for a rule the data plane holds for that session (and that the same
\* request does not remove), must reach the data plane as a call for that session and rule - whatever happened to earlier
\* calls. (Content is judged by RuleXlate at the driver; here: that the IE is not swallowed by the session bookkeeping.)
VForward(g, L) ==
  LET e == L.e
      sd == TargetSeid(g, L)
      rs == MyRsps(L)
      ok == sd # "" /\ ~IsDup(g, e) /\ Len(rs) = 1 /\ rs[1].cause = CAUSE_OK
      have(k, i) == <<sd, k, i>> \in (g.dp \cup CreatedOk(L.calls))
      called(op, k, i) == \E c \in Rng(L.calls) : c.op = op /\ c.kind = k /\ c.seid = sd /\ c.id = i
      removed(k, i) == \E o \in Rng(e.ops) : o.op = "remove" /\ o.kind = k /\ o.id = i
      lostC(o) == o.op = "create" /\ ~called("create", o.kind, o.id)
      lostU(o) == o.op = "update" /\ have(o.kind, o.id) /\ ~removed(o.kind, o.id) /\ ~called("update", o.kind, o.id)
      lost == {o \in Rng(e.ops) : lostC(o) \/ lostU(o)}
  IN IF ~ok THEN {} ELSE UNION {
       V(\A o \in lost : o.kind \notin {"pdr", "far"}, "C02:a Create / Update PDR or FAR IE of an accepted request was not handed to the data plane"),
       V(\A o \in lost : o.kind \notin {"qer", "urr", "bar"}, "C03:a Create / Update QER, URR or BAR IE of an accepted request was not handed to the data plane") }

Marked(t, f) == IF BitSet(t, f) THEN t ELSE t + f
\* C19 ("a flag seen by the control plane is the flag the other side set"): the packet-count flags of the Volume Measurement
\* follow the MNOP bit of the Measurement Information the SMF sent for that URR, and no other bit
VFlagsOf(ems, urrs, sd) ==
  V(\A i \in DOMAIN ems : \A x \in UrrOf(urrs, sd, ems[i].urr) : x.volum => ems[i].vf = (IF x.mnop THEN 63 ELSE 7),
    "C19:volume-measurement flags of a usage report differ from the measurement information (MNOP) set for the URR")
\* ------------------------------------------------------------------ C10 / C11 / C12: usage reports in responses and report requests
VUsageRsp(g, L) ==   \* Modification / Deletion response of a live session
  LET e   == L.e
      sd  == e.seid
      urr1 == IF e.t = "mod" THEN UrrAfterOps(g.urr, e, sd) ELSE g.urr
      ems == Emitted(MyRsps(L))
      prod == ProducedByCalls(L.calls)
      walk == SeqnWalk(urr1, sd, ems)
      \* --- C12
      dpc == g.dp \cup CreatedOk(L.calls)
      inDp(u) == <<sd, "urr", u>> \in dpc
      remU == IF e.t = "del" THEN {k[3] : k \in {x \in g.dp : x[1] = sd /\ x[2] = "urr"}}
              ELSE {o.id : o \in {x \in Rng(e.ops) : x.op = "remove" /\ x.kind = "urr"}} \cap {u \in {o.id : o \in Rng(e.ops)} : inDp(u)}
      refs1 == IF e.t = "del" THEN {r \in g.refs : r[1] # sd} ELSE RefsAfterOps(g.refs, g.created, e, sd)
      unref == {u \in {r[3] : r \in g.refs} : RefsOf(g.refs, sd, u) # {} /\ RefsOf(refs1, sd, u) = {} /\ inDp(u) /\ u \notin remU}
      need  == remU \cup unref
      termr == SelectSeq(ems, LAMBDA r : BitSet(r.trig, TRIG_TERMR))
      immer == SelectSeq(ems, LAMBDA r : BitSet(r.trig, TRIG_IMMER) /\ ~BitSet(r.trig, TRIG_TERMR))
      qops  == SelectSeq(e.ops, LAMBDA o : o.op = "query" /\ o.kind = "urr" /\ inDp(o.id) /\ o.id \notin remU)
      c12on == sd \notin g.c12off /\ ~AnyFailed(L.calls) /\ (e.t = "mod" => ~C12Loose(g, e, sd) /\ ~C12StepLoose(e))
  IN UNION {
       V(Delivered(ems, prod, urr1, sd), "C10:usage reports in the response differ from what the data plane returned"),
       V(walk.unknown = {}, "C10:usage report for a URR the session does not have"),
       VFlagsOf(ems, urr1, sd),
       \* the cause the data plane attached to a measurement stays; the UPF adds its mark (termination / immediate)
       V(\A i \in DOMAIN ems : \A j \in DOMAIN prod : prod[j].vals.st = ems[i].vals.st =>
            ems[i].trig \in {Marked(prod[j].trig, TRIG_TERMR), Marked(prod[j].trig, TRIG_IMMER)},
         "C10:trigger of a usage report in the response differs from the cause the data plane reported plus the UPF's mark"),
       V(walk.bad = {}, "C11:UR-SEQN out of sequence"),
       IF ~c12on THEN {} ELSE UNION {
         V({r.urr : r \in Rng(termr)} = need /\ Len(termr) = Cardinality(need),
           "C12:termination reports differ from the URRs removed or detached by the request"),
         V(Len(immer) = Len(qops) /\ \A u \in {o.id : o \in Rng(qops)} :
              Len(SelectSeq(immer, LAMBDA r : r.urr = u)) = Len(SelectSeq(qops, LAMBDA o : o.id = u)),
           "C12:immediate reports differ from the URRs queried"),
         V(Len(termr) + Len(immer) = Len(ems), "C12:usage report marked neither termination nor immediate") } }

VReport(g, L) ==
  LET e  == L.e
      sd == e.seid
      live == sd \in LiveSeids(g)
      s  == SessOf(g, sd)
      prod == ProducedByEvent(e)
      known == SelectSeq(prod, LAMBDA p : UrrOf(g.urr, sd, p.urr) # {})
      dl   == SelectSeq(e.reports, LAMBDA r : r.k = "dldr")
      nocp == SelectSeq(dl, LAMBDA r : BitSet(r.action, ACT_NOCP))
      us   == SelectSeq(Srrs(L), LAMBDA o : o.dldr = <<>>)
      ds   == SelectSeq(Srrs(L), LAMBDA o : o.dldr # <<>>)
      ems  == Emitted(us)
      walk == SeqnWalk(g.urr, sd, ems)
      busy == {t.seq : t \in {x \in g.tx : x.peer = NodePeer(s.node)}}
  IN UNION {
       V(L.calls = <<>>, "C01:report notification reached the data plane"),
       V(Rsps(L) = <<>>, "C08:response without request"),
       IF ~live THEN V(L.out = <<>>, "C10:report for an unknown session was forwarded")
       \* the owning node's id is a name that resolves nowhere: nothing can be sent (and, by C11, no UR-SEQN is used up:
       \* the ghost counters do not move, later responses show whether the implementation's did)
       ELSE IF NodePeer(s.node) = "none"
       THEN UNION { V(Srrs(L) = <<>>, "C10:report request for a node whose id does not resolve"),
                    \* ... and none was prepared either: a request that is built takes UR-SEQNs, which would show as a gap later
                    V(\A t \in Rng(L.snap.tx) : \E x \in g.tx : x.peer = t.peer /\ x.seq = t.wire,
                      "C11:a report request was prepared (UR-SEQNs taken) for a node whose id does not resolve: the URR's next report shows a gap") }
       ELSE UNION {
         V(\A o \in Rng(Srrs(L)) : o.to = NodePeer(s.node), "C10:report not sent to the node that owns the session"),
         V(\A o \in Rng(Srrs(L)) : o.hasseid /\ o.seid = s.cp, "C10:report not addressed with the peer's SEID"),
         V(Len(us) <= 1 /\ (known # <<>> => Len(us) = 1) /\ (prod = <<>> => us = <<>>),
           "C10:usage reports of one notification not delivered in one session report request"),
         V(Delivered(ems, prod, g.urr, sd), "C10:usage reports differ from what the data plane reported"),
         V(\A i \in DOMAIN ems : \E j \in DOMAIN known : known[j].vals.st = ems[i].vals.st /\ known[j].trig = ems[i].trig,
           "C10:usage report trigger differs from the cause reported"),
         V(walk.bad = {}, "C11:UR-SEQN out of sequence"),
         VFlagsOf(ems, g.urr, sd),
         V(Len(ds) = Len(nocp) /\ \A i \in DOMAIN ds : ds[i].dldr = <<nocp[i].pdr>> /\ ds[i].rpts = <<>>,
           "C13:downlink data report differs from the notifications that asked for one"),
         V(\A o \in Rng(Srrs(L)) : o.seq < SeqSpace /\ o.seq \notin busy, "C09:sequence number of a report request equals an outstanding one"),
         V(NoDup([i \in DOMAIN Srrs(L) |-> Srrs(L)[i].seq]), "C09:two report requests with one sequence number") } }

\* ------------------------------------------------------------------ C09: responses and time-outs
VRspEv(g, L) ==
  UNION { V(L.out = <<>>, "C09:a response triggered a transmission"),
          IF TxOf(g, L.e.peer, L.e.seq) = {} THEN V(NoEffect(g, L), "C09:response matching no outstanding request had an effect") ELSE {} }
VTimeout(g, L) ==
  LET e == L.e
      ts == TxOf(g, e.tpeer, e.tseq)
      t == CHOOSE t \in ts : TRUE
  IN UNION {
       V(NoEffect(g, L), "C09:time-out changed session state"),
       IF e.tt = "tx" /\ ts # {} /\ t.n < g.maxrt
       THEN V(Len(L.out) = 1 /\ L.out[1].to = t.peer /\ L.out[1].hex = t.hex, "C09:request not retransmitted byte-identically on time-out")
       ELSE V(L.out = <<>>, IF e.tt = "tx" THEN "C09:retransmission after the request was answered, abandoned or exhausted its retries"
                            ELSE "C06:retention time-out triggered a transmission") }

\* ------------------------------------------------------------------ C07 (tainted traces): only liveness and bystanders
VTainted(g, L) ==
  LET e == L.e IN
  CASE e.t = "hb" /\ ~IsDup(g, e) -> V(Len(MyRsps(L)) = 1 /\ MyRsps(L)[1].mt = MT_HBRSP, "C07:heartbeat not answered after malformed input")
    [] e.t = "mod" /\ ~IsDup(g, e) /\ e.seid \in LiveSeids(g) /\ e.seid \notin g.tainted /\ "all" \notin g.tainted ->
         V(Len(MyRsps(L)) = 1 /\ MyRsps(L)[1].cause = CAUSE_OK /\ MyRsps(L)[1].seid = SessOf(g, e.seid).cp,
           "C07:session not addressed by the malformed messages is no longer intact")
    [] OTHER -> {}

FatalTags(g, L) ==
  LET e == L.e IN
  IF L.fatal = "" THEN {}
  ELSE {"C07:the UPF panicked or tried to exit"} \cup
       (IF e.t \in {"mod", "del", "report"} /\ e.seid \notin LiveSeids(g) THEN {"C04:lookup of a SEID that addresses no live session faulted"} ELSE {}) \cup
       (IF e.t = "rptrsp" /\ e.seid = "0" THEN {"C04:SEID-0 report response faulted", "C05:SEID-0 report response faulted"} ELSE {})

Verdict(g, L) ==
  LET e == L.e IN
  IF g.skip \/ e.t = "init" THEN {}
  ELSE IF L.fatal # "" THEN FatalTags(g, L)
  ELSE IF ~TwinOk(g.dp, L.calls) THEN {"INFRA:the model data plane did not behave like a table"}
  ELSE IF g.taint \/ e.t = "raw" THEN VTainted(g, L)
  ELSE UNION {
         VCalls(g, L), VTable(g, L), VBook(g, L),
         IF IsDup(g, e) THEN VDup(g, L)
         ELSE IF IsReqEv(e) THEN VRsp(g, L) \cup VForward(g, L) \cup (IF e.t \in {"mod", "del"} /\ e.seid \in LiveSeids(g) /\ Len(MyRsps(L)) = 1 THEN VUsageRsp(g, L) ELSE {})
         ELSE IF e.t = "report" THEN VReport(g, L)
         ELSE IF IsRspEv(e) THEN VRspEv(g, L)
         ELSE IF e.t = "timeout" THEN VTimeout(g, L)
         ELSE {} }

\* ================================================================== GHOST UPDATE
GNextV(g, L, bad) ==
  LET e == L.e IN
  IF e.t = "init" THEN [G0 EXCEPT !.maxrt = e.maxrt]
  ELSE IF g.skip THEN g
  ELSE IF bad THEN [g EXCEPT !.skip = TRUE]
  ELSE IF e.t = "raw" THEN [g EXCEPT !.taint = TRUE, !.tainted = @ \cup {e.seid}]
  ELSE IF g.taint THEN [g EXCEPT !.rx = RxAfter(g, L)]
  ELSE
    LET live2 == LiveAfter(g, L)
        seids2 == {s.seid : s \in live2}
        dup == IsDup(g, e)
        sd == TargetSeid(g, L)
        usd == IF e.t \in {"mod", "del", "report"} /\ e.seid \in LiveSeids(g) THEN e.seid ELSE sd
        urr1 == IF ~dup /\ sd # "" THEN UrrAfterOps(g.urr, e, sd) ELSE g.urr
        ems == IF dup THEN <<>> ELSE IF e.t = "report" THEN Emitted(SelectSeq(Srrs(L), LAMBDA o : o.dldr = <<>>)) ELSE Emitted(MyRsps(L))
        urr2 == IF usd = "" THEN urr1 ELSE SeqnWalk(urr1, usd, ems).urr
        urr3 == {x \in urr2 : x.seid \in seids2 /\ <<x.seid, "urr", x.id>> \notin RemovedOk(L.calls)}
        refs1 == IF ~dup /\ e.t \in {"mod", "est"} /\ sd # "" THEN RefsAfterOps(g.refs, g.created, e, sd) ELSE g.refs
        takeover == ~dup /\ e.t = "mod" /\ e.seid \in LiveSeids(g) /\ e.node \notin {"", "!bad"}
        oldnode == SessOf(g, e.seid).node
        assoc1 == IF ~dup /\ e.t = "assoc" /\ e.node # "" THEN {a \in g.assoc : a.node # e.node} \cup {[node |-> e.node, peer |-> e.peer]}
                  ELSE IF takeover THEN {IF a.node = oldnode THEN [a EXCEPT !.node = e.node] ELSE a : a \in g.assoc}
                  ELSE g.assoc
        rts1 == IF g.rts = "" /\ \E o \in Rng(L.out) : o.rts # "" THEN (CHOOSE o \in Rng(L.out) : o.rts # "").rts ELSE g.rts
    IN [ maxrt |-> g.maxrt,
         assoc |-> assoc1,
         live |-> live2,
         nsess |-> IF Cardinality(live2 \ g.live) > 0 /\ EstAccepted(g, e) /\ ~dup THEN g.nsess + 1 ELSE g.nsess,
         created |-> CreatedAfter(g, L),
         ever |-> {k \in EverAfter(g, L) : k[1] \in seids2},
         dp |-> DpAfter(g.dp, L.calls),
         urr |-> urr3,
         refs |-> {r \in refs1 : r[1] \in seids2},
         c12off |-> (g.c12off \cup (IF usd # "" /\ ~dup /\ (AnyFailed(L.calls) \/ (e.t \in {"mod", "est"} /\ C12Loose(g, e, usd))) THEN {usd} ELSE {})) \cap seids2,
         rx |-> RxAfter(g, L),
         tx |-> TxAfter(g, L),
         rts |-> rts1,
         taint |-> FALSE, tainted |-> {},
         \* take-over onto a node id that already has its own association is outside every statement: stop judging
         skip |-> takeover /\ e.node \in AssocNodes(g) /\ e.node # oldnode ]

GNext(g, L) == GNextV(g, L, Verdict(g, L) # {})

=============================================================================
