------------------------------ MODULE MC_Flags ------------------------------
(* Enumerates the words of the four flag IEs (per family F), checks the reference's own round-trip
   (Encode(Decode(w)) = defined part of w) and prints every word as a test vector. *)
EXTENDS Flags, Json
CONSTANTS F,             \* "aa1" "aa2" "rt2" "rt3" "urt" "map" "vm"
          Lo, Hi, Stride  \* words Lo, Lo+Stride, ... <= Hi
VARIABLE x
Seq2Set(s) == {s[i] : i \in DOMAIN s}
Vec(f, n, w, mnop, tbl) == [f |-> f, n |-> n, w |-> w, mnop |-> mnop]
ASSUME PrintT(<<"TBL", ToJson([aa |-> ApplyActionTbl, rt |-> ReportingTriggersTbl, urt |-> UsageReportTriggerTbl,
                               map |-> UsageReportTriggerTbl, vm |-> VolumeMeasurementTbl])>>)
Init ==
  /\ \E k \in 0..((Hi - Lo) \div Stride) : LET w == Lo + k * Stride IN
       x = CASE F = "aa1" -> Vec("aa", 1, w, FALSE, ApplyActionTbl)
             [] F = "aa2" -> Vec("aa", 2, w, FALSE, ApplyActionTbl)
             [] F = "rt2" -> Vec("rt", 2, w, FALSE, ReportingTriggersTbl)
             [] F = "rt3" -> Vec("rt", 3, w, FALSE, ReportingTriggersTbl)
             [] F = "urt" -> Vec("urt", 3, w, FALSE, UsageReportTriggerTbl)
             [] F = "map" -> Vec("map", 3, w, FALSE, UsageReportTriggerTbl)
             [] F = "vm"  -> Vec("vm", 1, w % 64, w >= 64, VolumeMeasurementTbl)
  /\ PrintT(<<"VEC", ToJson(x)>>)
Next == FALSE /\ x' = x
Spec == Init /\ [][Next]_x
Tbl == CASE x.f = "aa" -> ApplyActionTbl [] x.f = "rt" -> ReportingTriggersTbl [] x.f = "vm" -> VolumeMeasurementTbl [] OTHER -> UsageReportTriggerTbl
RoundTrip == TablesOk /\ Encode(Tbl, Decode(Tbl, x.w)) = Defined(Tbl, x.w)
MapOk == x.f = "map" => Cardinality(CauseMap(x.w)) <= 1
=============================================================================
