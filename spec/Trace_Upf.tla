---------------------------- MODULE Trace_Upf ----------------------------
(***************************************************************************)
(* Trace validation: executions recorded from the real PfcpServer (L1      *)
(* executor) are replayed line by line through the monitors of Mon.tla.    *)
(* The file holds many traces; an "init" line starts a new one.            *)
(* Verdicts are collected (not raised as TLC errors) so that one rejected  *)
(* trace does not leave the others unexamined; they are written as JSON.   *)
(***************************************************************************)
EXTENDS Mon, Json, IOUtils

Trace == ndJsonDeserialize(IOEnv.VERIF_TRACE)

VARIABLES l, g, viol
vars == <<l, g, viol>>

TraceInit == l = 1 /\ g = G0 /\ viol = <<>>

Step == /\ l <= Len(Trace)
        /\ LET L == Trace[l]
               v == Verdict(g, L)
           IN /\ g' = GNextV(g, L, v # {})
              /\ viol' = IF v = {} THEN viol ELSE Append(viol, [tr |-> L.tr, i |-> L.i, tags |-> v])
        /\ l' = l + 1

Finish == /\ l = Len(Trace) + 1
          /\ JsonSerialize(IOEnv.VERIF_VERDICT, [lines |-> Len(Trace), viol |-> viol])
          /\ l' = l + 1
          /\ UNCHANGED <<g, viol>>

TraceNext == Step \/ Finish
TraceSpec == TraceInit /\ [][TraceNext]_vars

\* every line consumed and the verdict file written
TraceAccepted == TLCGet("stats").diameter = Len(Trace) + 2
=============================================================================
