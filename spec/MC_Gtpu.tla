------------------------------ MODULE MC_Gtpu ------------------------------
(***************************************************************************)
(* Exhaustive check of the reference encoder against the independent       *)
(* reading of the statement, over QFI 0..63 x PDU type 0..15 x with /      *)
(* without extension header x TEID classes x payload-length classes; every *)
(* state is printed as a test vector for the real encoder.                 *)
(***************************************************************************)
EXTENDS GtpuEnc, Json
CONSTANTS Teids, PLens
VARIABLE x
Dom == [teid : Teids, ext : BOOLEAN, ptype : 0..15, qfi : 0..63, plen : PLens]
Init == /\ x \in Dom
        /\ (~x.ext => x.ptype = 0 /\ x.qfi = 0)
        /\ PrintT(<<"VEC", ToJson(x)>>)
McTeids == {<<0,0,0,0>>, <<0,0,0,1>>, <<255,255,255,255>>, <<128,0,0,0>>, <<1,2,3,4>>}
Next == FALSE /\ x' = x
Spec == Init /\ [][Next]_x
RefWellFormed == WellFormed(Header(x.teid, x.ext, x.ptype, x.qfi, x.plen), x.teid, x.ext, x.ptype, x.qfi, x.plen)
=============================================================================
