------------------------------ MODULE FlowDesc ------------------------------
(***************************************************************************)
(* Reference for C16: what an IPFilterRule of the supported form           *)
(*   permit in|out <protocol|ip> from <address> [ports] to <address> [ports]*)
(* denotes (RFC 6733 4.3 IPFilterRule as used by TS 29.244 8.2.5), and the *)
(* packed form handed to the data plane.  A rule is an abstract record:    *)
(*   [dir, proto (-1 = "ip"), src, sports, dst, dports]                    *)
(*   address = [k: "any"|"assigned"|"host"|"cidr", ip: <<a,b,c,d>>, n]     *)
(*   port item = [lo, hi, single]                                          *)
(***************************************************************************)
EXTENDS Integers, Sequences, FiniteSets, TLC

MaskOctet(n, i) == LET k == n - 8 * (i - 1) IN IF k >= 8 THEN 255 ELSE IF k <= 0 THEN 0 ELSE 256 - 2 ^ (8 - k)
Mask(n) == [i \in 1..4 |-> MaskOctet(n, i)]
AndOctet(a, m) == a - (a % (256 - m))      \* m is a prefix-mask octet: 256 - 2^j
Net(a) ==
  CASE a.k \in {"any", "assigned"} -> [ip |-> <<0, 0, 0, 0>>, mask |-> <<0, 0, 0, 0>>]
    [] a.k = "host" -> [ip |-> a.ip, mask |-> <<255, 255, 255, 255>>]
    [] a.k = "cidr" -> [ip |-> [i \in 1..4 |-> AndOctet(a.ip[i], MaskOctet(a.n, i))], mask |-> Mask(a.n)]
Ports(ps) == [i \in DOMAIN ps |-> <<ps[i].lo, ps[i].hi>>]

\* what the rule denotes
Denote(r) == [action |-> "permit", dir |-> r.dir, proto |-> IF r.proto = -1 THEN 255 ELSE r.proto,
              src |-> Net(r.src).ip, smask |-> Net(r.src).mask, dst |-> Net(r.dst).ip, dmask |-> Net(r.dst).mask,
              sports |-> Ports(r.sports), dports |-> Ports(r.dports)]
\* what the data plane is handed: source and destination exchanged for uplink PDRs
Packed(r, uplink) ==
  LET d == Denote(r) IN
  IF uplink THEN [d EXCEPT !.src = d.dst, !.smask = d.dmask, !.dst = d.src, !.dmask = d.smask, !.sports = d.dports, !.dports = d.sports]
  ELSE d

\* sanity of the reference itself
MaskSane(n) == /\ \A i \in 1..4 : Mask(n)[i] \in {0, 128, 192, 224, 240, 248, 252, 254, 255}
               /\ \A i \in 1..3 : Mask(n)[i] < 255 => Mask(n)[i + 1] = 0
               /\ (Mask(n)[1] + Mask(n)[2] + Mask(n)[3] + Mask(n)[4] = 0) = (n = 0)
NetSane(a) == LET x == Net(a) IN \A i \in 1..4 : AndOctet(x.ip[i], x.mask[i]) = x.ip[i] /\ x.ip[i] \in 0..255
=============================================================================
