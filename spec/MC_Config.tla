------------------------------ MODULE MC_Config ------------------------------
(* Enumerates the fault lattice up to MaxFaults simultaneous faults and prints each abstract document. *)
EXTENDS Config, Json
CONSTANT MaxFaults
VARIABLE x
Init == x \in UpTo(MaxFaults) /\ Coherent(x) /\ PrintT(<<"VEC", ToJson(x)>>)
Next == FALSE /\ x' = x
Spec == Init /\ [][Next]_x
\* the three verdicts partition the lattice; the fault-free document must be accepted
RefSane == /\ x \in Fields /\ NFaults(x) <= MaxFaults
           /\ (MustAccept(x) \/ MustReject(x) \/ Silent(x))
           /\ ~(MustAccept(x) /\ MustReject(x))
           /\ MustAccept(Good)
           /\ (NFaults(x) = 0 => x = Good)
=============================================================================
