----------------------------- MODULE SeidAlloc -----------------------------
(***************************************************************************)
(* The UP-SEID allocator of go-upf (pfcp.LocalNode: sess / free, NewSess / *)
(* DeleteSess) on its own, small enough for an INDUCTIVE invariant: the    *)
(* part of C04 that speaks about issuing ("non-zero, held by no other live *)
(* session, re-issued only after release") holds in every reachable state  *)
(* for histories of any length (table capacity N).                         *)
(*                                                                         *)
(*   apalache-mc check --init=IndInit --inv=IndInv   --length=1   (step)   *)
(*   apalache-mc check --init=Init    --inv=IndInv   --length=0   (base)   *)
(*   apalache-mc check --init=IndInit --inv=IssueOk  --length=1   (action) *)
(*   tlc MC_SeidAlloc (N = 5): same invariants on all reachable states     *)
(*   tlapm SeidAllocProof.tla: IndInv inductive and IssueOk for EVERY N    *)
(*                                                                         *)
(* Upf.tla uses exactly these two operations on its variables slots/free   *)
(* (MC_Upf checks AllocInv, the same predicate, on every state of the      *)
(* ideal model), and Trace_Ideal.tla compares slots/free with the recorded *)
(* LocalNode after every step of the real server (free list in order).    *)
(***************************************************************************)
EXTENDS Integers, Sequences, FiniteSets

CONSTANT
  \* @type: Int;
  N

VARIABLES
  \* @type: Seq(Bool);
  slots,      \* slots[i]: SEID i addresses a live session  (LocalNode.sess[i-1] # nil)
  \* @type: Seq(Int);
  free,       \* released SEIDs, re-used last-in first-out   (LocalNode.free)
  \* @type: Int;
  last        \* SEID issued by the last step, 0 if it issued none

Init == slots = <<>> /\ free = <<>> /\ last = 0

\* LocalNode.NewSess
New ==
  /\ (free # <<>> \/ Len(slots) < N)
  /\ IF free # <<>>
     THEN /\ last' = free[Len(free)]
          /\ slots' = [slots EXCEPT ![free[Len(free)]] = TRUE]
          /\ free' = SubSeq(free, 1, Len(free) - 1)
     ELSE /\ last' = Len(slots) + 1
          /\ slots' = Append(slots, TRUE)
          /\ free' = free

\* LocalNode.DeleteSess: SEID 0, beyond the table and an empty slot are refused
Del(i) ==
  /\ i \in DOMAIN slots /\ slots[i]
  /\ slots' = [slots EXCEPT ![i] = FALSE]
  /\ free' = Append(free, i)
  /\ last' = 0

Next == New \/ \E i \in 1..N : Del(i)

\* ------------------------------------------------------------------ invariants
TypeOK ==
  /\ Len(slots) <= N
  /\ last \in 0..N
IndInv ==
  /\ TypeOK
  /\ \A k \in DOMAIN free : free[k] \in DOMAIN slots /\ ~slots[free[k]]           \* only released SEIDs wait for re-use
  /\ \A j, k \in DOMAIN free : j # k => free[j] # free[k]                          \* each of them once
  /\ \A i \in DOMAIN slots : ~slots[i] => \E k \in DOMAIN free : free[k] = i       \* no SEID is lost
  /\ last # 0 => last \in DOMAIN slots /\ slots[last]

\* a consequence of IndInv (pigeonhole: the free list holds distinct dead slots), not needed for the induction
Bounded == Len(free) <= Len(slots)

\* C04, the issuing part, as a property of every step
IssueOk ==
  New => /\ last' >= 1                                                             \* non-zero
         /\ (last' \in DOMAIN slots => ~slots[last'])                              \* held by no live session
         /\ \A i \in DOMAIN slots : slots[i] => slots'[i]                          \* nobody else's session is displaced
=============================================================================
