----------------------------- MODULE Trace_Rules -----------------------------
(* Trace validation for C02 / C03 (and the version window of C20): every netlink request the
   simulated kernel received from the REAL driver must be, as a bag of leaves, the translation of
   the grouped IE the driver was handed; periodic registrations are observed as the OIDs queried on
   an injected tick. *)
EXTENDS RuleXlate, Json, IOUtils
Trace == ndJsonDeserialize(IOEnv.VERIF_TRACE)
VARIABLES l, viol
V(ok, tag) == IF ok THEN {} ELSE {tag}
Rng(s) == {s[i] : i \in DOMAIN s}
Link0 == <<7, 0, 0, 0>>
FdAddrPaths == {"5.3.1.4", "5.3.1.5", "5.3.1.6", "5.3.1.7"}
AllZero(v) == \A i \in DOMAIN v : v[i] = 0
Norm(kind, leaves) ==
  LET keep == SelectSeq(leaves, LAMBDA x : ~(kind = "urr" /\ x.p = "6"))
  IN [i \in DOMAIN keep |-> [p |-> keep[i].p,
                             v |-> IF keep[i].p \in FdAddrPaths /\ Len(keep[i].v) >= 4 /\ AllZero(keep[i].v) THEN <<0, 0, 0, 0>> ELSE keep[i].v]]
RuleFns == {"CreatePDR", "UpdatePDR", "CreateFAR", "UpdateFAR", "CreateQER", "UpdateQER", "CreateURR", "UpdateURR", "CreateBAR", "UpdateBAR"}
PropOf(kind) == IF kind \in {"pdr", "far"} THEN "C02" ELSE "C03"

JudgeRule(o, i) ==
  LET st == o.steps[i]
      tree == o.in[i].tree
      kind == KindOf(tree)
      P == PropOf(kind)
      rs == SelectSeq(st.reqs, LAMBDA r : r.conn = "main" /\ r.op \in {"create", "update"})
      r == rs[1]
      want == Translate(tree, o.meta.seidle, Link0)
  IN IF st.panic # "" THEN {P \o ":the driver faulted on a well-formed IE"}
     ELSE IF Len(rs) # 1 THEN {P \o ":the IE did not reach the data plane as exactly one create/update request"}
     ELSE UNION {
       V(r.kind = kind /\ r.op = (IF IsCreate(tree) THEN "create" ELSE "update"), P \o ":rule sent with another command"),
       V(r.seid = o.seid, P \o ":rule attached to another session"),
       V(BagOf(Norm(kind, r.leaves)) = BagOf(want), P \o ":rule handed to the data plane differs from the IE's content") }

\* periodic registrations: ghost set of [id, period] built from the Create / Remove URR steps
PerioOf(tree) ==
  LET tr == Kids(tree, IE_ReportingTriggers)  pe == Kids(tree, IE_MeasurementPeriod)  id == Kids(tree, IE_URRID)
  IN IF tr # <<>> /\ pe # <<>> /\ id # <<>> /\ Bit(tr[1].v[1], 1) THEN {[id |-> Rev(id[1].v), period |-> pe[1].v]} ELSE {}
RegAfter(o, upto) ==
  FoldLeft(LAMBDA reg, i :
             IF o.in[i].fn = "CreateURR" /\ o.steps[i].err = "" THEN reg \cup PerioOf(o.in[i].tree)
             ELSE IF o.in[i].fn = "RemoveURR" THEN {x \in reg : x.id # Rev(Kids(o.in[i].tree, IE_URRID)[1].v)}
             ELSE reg,
           {}, [i \in 1..upto |-> i])
PeriodOctets(p) == <<0, 0, p \div 256, p % 256>>
JudgeTick(o, i) ==
  LET reg == {x \in RegAfter(o, i - 1) : x.period = PeriodOctets(o.in[i].period)}
      qs == SelectSeq(o.steps[i].reqs, LAMBDA r : r.conn = "ps" /\ r.op = "mquery")
      got == FlattenSeq([j \in DOMAIN qs |-> SelectSeq(qs[j].leaves, LAMBDA x : x.p \in {"11.3", "11.8"})])
      gotL == [j \in DOMAIN got |-> [p |-> got[j].p, v |-> got[j].v]]
      ids == SelectSeq(gotL, LAMBDA x : x.p = "11.3")
      seids == SelectSeq(gotL, LAMBDA x : x.p = "11.8")
  IN UNION {
       V({x.v : x \in Rng(ids)} = {x.id : x \in reg} /\ Len(ids) = Cardinality(reg),
         "C03:URRs queried on a periodic tick differ from the URRs registered with that period"),
       V(\A x \in Rng(seids) : x.v = o.meta.seidle, "C03:periodic query for another session") }

\* v = <<major, minor, patch>> or <<major, minor, patch, 1>> for a pre-release of that version (which orders just below it)
VersionOk(v) == IF Len(v) = 4 /\ v[4] = 1
                THEN (v[1] = 0 /\ v[2] = 9 /\ v[3] >= 6) \/ (v[1] = 0 /\ v[2] = 10 /\ v[3] = 0)
                ELSE v[1] = 0 /\ v[2] = 9 /\ v[3] >= 5
JudgeVersion(o, i) ==
  LET v == o.meta.vers[i] IN
  V((o.steps[i].err = "") = (Len(v) \in {3, 4} /\ VersionOk(v)), "C20:gtp5g version window 0.9.5 <= v < 0.10.0 not enforced")

Judge(o) ==
  UNION {
    CASE o.in[i].fn \in RuleFns -> JudgeRule(o, i)
      [] o.in[i].fn = "tick" -> JudgeTick(o, i)
      [] o.in[i].fn = "version" -> JudgeVersion(o, i)
      [] OTHER -> V(o.steps[i].panic = "", "C03:the driver faulted")
    : i \in DOMAIN o.steps }
Init == l = 1 /\ viol = <<>>
Step == /\ l <= Len(Trace)
        /\ LET v == Judge(Trace[l]) IN viol' = IF v = {} THEN viol ELSE Append(viol, [tr |-> Trace[l].id, i |-> l, tags |-> v])
        /\ l' = l + 1
Finish == /\ l = Len(Trace) + 1
          /\ JsonSerialize(IOEnv.VERIF_VERDICT, [lines |-> Len(Trace), viol |-> viol])
          /\ l' = l + 1 /\ UNCHANGED viol
TraceSpec == Init /\ [][Step \/ Finish]_<<l, viol>>
TraceAccepted == TLCGet("stats").diameter = Len(Trace) + 2
=============================================================================
