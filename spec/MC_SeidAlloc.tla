---------------------------- MODULE MC_SeidAlloc ----------------------------
(* TLC front-end of SeidAlloc.tla: the invariants on all reachable states of a table of capacity N *)
EXTENDS SeidAlloc
Spec == Init /\ [][Next]_<<slots, free, last>>
IssueOkProp == [][IssueOk]_<<slots, free, last>>
=============================================================================
