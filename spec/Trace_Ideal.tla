----------------------------- MODULE Trace_Ideal -----------------------------
(***************************************************************************)
(* Lock-step conformance of the IDEAL MODEL (Upf.tla) with recorded        *)
(* executions of the real PfcpServer (L1 executor).                        *)
(*                                                                         *)
(* Every recorded line is replayed through the action of Upf.tla that its  *)
(* event names, with the environment's choices (which data-plane calls     *)
(* failed) taken from the event; the step record the model produces is     *)
(* compared with the recorded one: data-plane calls (as a bag - session    *)
(* close walks Go maps), datagrams (header fields, cause, F-SEID, usage    *)
(* reports with UR-SEQN / trigger / measurement selection), session table, *)
(* free list (exact order: LIFO re-use), tx counter, rx / tx bookkeeping.  *)
(*                                                                         *)
(* A difference is a DIVERGENCE between specification and code.  It is     *)
(* reported (SPEC-DIVERGENCE) but never decides a property: the monitors   *)
(* of Mon.tla do that.  It is how the ideal model - the thing TLC explores *)
(* exhaustively - is kept honest, and how behaviour outside the listed     *)
(* properties is covered.  Events outside the model's vocabulary end the   *)
(* comparison of that trace ("unsupported").                               *)
(***************************************************************************)
EXTENDS Upf, Json, IOUtils

Trace == ndJsonDeserialize(IOEnv.VERIF_TRACE)
VARIABLES l, div, off, ncmp    \* position, divergences found, comparison switched off for the current trace, lines compared

allvars == <<vars, l, div, off, ncmp>>

BagOfSeq(s) == [x \in Rng(s) |-> Cardinality({i \in DOMAIN s : s[i] = x})]
PCall(c) == [op |-> c.op, kind |-> c.kind, seid |-> c.seid, id |-> c.id, res |-> c.res, nrep |-> Len(c.reps)]
PRep(r) == [urr |-> r.urr, seqn |-> r.seqn, trig |-> r.trig, vf |-> r.vf, dur |-> r.dur]
POut(o) == [to |-> o.to, mt |-> o.mt, seq |-> o.seq, hasseid |-> o.hasseid, seid |-> o.seid, cause |-> o.cause, node |-> o.node,
            fseid |-> o.fseid, created |-> Rng(o.created), dldr |-> o.dldr,
            \* usage reports of a response as a bag (session close walks a Go map); UR-SEQN per URR is in the elements
            rpts |-> BagOfSeq([i \in DOMAIN o.rpts |-> PRep(o.rpts[i])]),
            rts |-> o.rts # ""]
PSnap(s) == [live |-> Rng(s.live), free |-> s.free, txseq |-> s.txseq, rx |-> {x.k : x \in Rng(s.rx)},
             tx |-> {<<x.k, x.n>> : x \in Rng(s.tx)}, nodes |-> Rng(s.nodes)]
\* hasseid / seid of node-level responses are not part of the abstraction of the model (they have no SEID)
Same(m, r) ==
  /\ BagOfSeq([i \in DOMAIN m.calls |-> PCall(m.calls[i])]) = BagOfSeq([i \in DOMAIN r.calls |-> PCall(r.calls[i])])
  /\ BagOfSeq([i \in DOMAIN m.out |-> POut(m.out[i])]) = BagOfSeq([i \in DOMAIN r.out |-> POut(r.out[i])])
  /\ PSnap(m.snap) = PSnap(r.snap)
What(m, r) ==
  IF BagOfSeq([i \in DOMAIN m.calls |-> PCall(m.calls[i])]) # BagOfSeq([i \in DOMAIN r.calls |-> PCall(r.calls[i])]) THEN "data-plane calls"
  ELSE IF BagOfSeq([i \in DOMAIN m.out |-> POut(m.out[i])]) # BagOfSeq([i \in DOMAIN r.out |-> POut(r.out[i])]) THEN "datagrams"
  ELSE "bookkeeping snapshot"

Diff(m, r) ==
  IF What(m, r) = "data-plane calls" THEN [m |-> [i \in DOMAIN m.calls |-> PCall(m.calls[i])], r |-> [i \in DOMAIN r.calls |-> PCall(r.calls[i])]]
  ELSE IF What(m, r) = "datagrams" THEN [m |-> [i \in DOMAIN m.out |-> POut(m.out[i])], r |-> [i \in DOMAIN r.out |-> POut(r.out[i])]]
  ELSE [m |-> PSnap(m.snap), r |-> PSnap(r.snap)]

Supported(e) ==
  \/ e.t \in {"hb", "assoc", "assocupd", "assocrel", "est", "del", "rptrsp", "hbrsp"}
  \/ e.t = "mod" /\ (e.node = "" \/ e.node \notin DOMAIN nodes)
  \/ e.t = "timeout"
  \/ e.t = "report" /\ \A i \in DOMAIN e.reports : e.reports[i].k = "usar"

\* order in which the recorded re-association released the node's sessions: the tail the step appended to the free list
SlotOfStr(sd) == CHOOSE i \in DOMAIN slots : SeidStr(i) = sd
RecordedOrder(n) ==
  IF n \notin DOMAIN nodes \/ IsRetrans([peer |-> Trace[l].e.peer, seq |-> Trace[l].e.seq]) THEN << >>
  ELSE LET rf == Trace[l].snap.free
           k == Cardinality(nodes[n].sess)
           tail == SubSeq(rf, Len(rf) - k + 1, Len(rf))
       IN IF Len(rf) >= k /\ {tail[i] : i \in DOMAIN tail} = {SeidStr(i) : i \in nodes[n].sess}
          THEN [i \in DOMAIN tail |-> SlotOfStr(tail[i])]
          ELSE SetToSortedSeq(nodes[n].sess)

\* the model action named by the recorded event
ModelStep(e) ==
  LET f == Rng(e.faults)  f2 == Rng(e.faults2) IN
  CASE e.t = "hb" -> Heartbeat(e.peer, e.seq)
    [] e.t = "assoc" /\ e.node # "" -> AssocSetupO(e.peer, e.seq, e.node, RecordedOrder(e.node))
    [] e.t \in {"assoc", "assocupd", "assocrel"} -> AssocOther(e.peer, e.seq, IF e.t = "assoc" THEN "assocupd" ELSE e.t)
    [] e.t = "est" -> Establish(e.peer, e.seq, e.node, e.cp, e.ops, f, f2)
    [] e.t = "mod" -> Modify(e.peer, e.seq, 0, e.seid, e.node, e.ops, f, f2)
    [] e.t = "del" -> Delete(e.peer, e.seq, 0, e.seid)
    [] e.t \in {"rptrsp", "hbrsp"} -> Response(e.peer, e.seq, e.t, e.seid)
    [] e.t = "timeout" /\ e.tt = "tx" -> TxTimeout(e.tpeer, e.tseq)
    [] e.t = "timeout" -> RxTimeout(e.tpeer, e.tseq)
    [] e.t = "report" -> Report(0, e.seid, e.reports)

\* a fresh server for every trace
Reset(e) ==
  /\ nodes' = << >> /\ slots' = << >> /\ free' = << >> /\ rx' = {} /\ tx' = {} /\ dp' = {} /\ tok' = 0 /\ rts' = Rts
  /\ txseq' = IF e.txseq0 \in {"16777213", "16777214", "16777215"}
               THEN CHOOSE n \in {16777213, 16777214, 16777215} : ToString(n) = e.txseq0 ELSE 0
  /\ nseq' = [p \in Peers |-> 0]
  /\ L' = [L EXCEPT !.i = 0] /\ g' = [G0 EXCEPT !.maxrt = e.maxrt] /\ bad' = {} /\ hist' = << >> /\ turns' = 0

KnownStart(e) == e.txseq0 \in {"", "0", "16777213", "16777214", "16777215"}

TraceInit == Init /\ l = 1 /\ div = << >> /\ off = FALSE /\ ncmp = 0

Step ==
  /\ l <= Len(Trace)
  /\ l' = l + 1
  /\ LET R == Trace[l]  e == R.e IN
     IF e.t = "init"
     THEN /\ Reset(e) /\ off' = (~KnownStart(e) \/ e.lax) /\ div' = div /\ ncmp' = ncmp   \* the model's data plane is not permissive
     ELSE IF off \/ R.fatal # "" \/ ~Supported(e) \/ ~ENABLED ModelStep(e)
     THEN /\ off' = TRUE /\ div' = div /\ ncmp' = ncmp /\ UNCHANGED vars
     ELSE /\ ModelStep(e)
          /\ ncmp' = ncmp + 1
          /\ IF Same(L', R) THEN off' = FALSE /\ div' = div
             \* faults are placed by call ordinal; where the implementation walks a Go map (session close, dissociation of
             \* several URRs) the ordinal may hit another call than in the model: not a divergence, comparison ends here
             ELSE IF (e.faults # << >> \/ e.faults2 # << >>) /\ What(L', R) = "data-plane calls" THEN off' = TRUE /\ div' = div
             ELSE /\ off' = TRUE
                  /\ div' = Append(div, [tr |-> R.tr, i |-> R.i, what |-> What(L', R), t |-> e.t,
                                          model |-> Diff(L', R).m, code |-> Diff(L', R).r])

Finish == /\ l = Len(Trace) + 1
          /\ JsonSerialize(IOEnv.VERIF_VERDICT, [lines |-> Len(Trace), viol |-> << >>, div |-> div, compared |-> ncmp])
          /\ l' = l + 1 /\ UNCHANGED <<vars, div, off, ncmp>>
TraceSpec == TraceInit /\ [][Step \/ Finish]_allvars
TraceAccepted == TLCGet("stats").diameter = Len(Trace) + 2
=============================================================================
