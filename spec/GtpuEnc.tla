------------------------------ MODULE GtpuEnc ------------------------------
(***************************************************************************)
(* Reference for C14: the GTPv1-U G-PDU the UPF emits when it re-injects a *)
(* buffered packet (TS 29.281 5.1, 5.2.1; PDU Session Container TS 38.415  *)
(* 5.5.2), for the header form with flags 0x34 (version 1, PT = 1, E = 1,  *)
(* S = 0, PN = 0).  Octets are numbers 0..255; a packet is Seq(0..255).    *)
(* The payload is opaque: the reference speaks about its length and place. *)
(***************************************************************************)
EXTENDS Integers, Sequences, FiniteSets, TLC

Flags34 == 52         \* 0x34
TPDU    == 255
PSC     == 133        \* 0x85: PDU Session Container

\* the octets in front of the payload
Header(teid, ext, ptype, qfi, plen) ==
  LET optlen == IF ext THEN 8 ELSE 4                \* seq(2) n-pdu(1) next-ext(1) [+ ext header (4)]
      l == optlen + plen                            \* octets following the mandatory 8-octet header
  IN << Flags34, TPDU, l \div 256, l % 256, teid[1], teid[2], teid[3], teid[4],
        0, 0, 0, IF ext THEN PSC ELSE 0 >>
     \o (IF ext THEN << 1, ptype * 16, qfi, 0 >> ELSE << >>)

\* ------------------------------------------------------------------ an independent reading of the statement
\* (a decoder written from the specification text, not from the encoder)
Version(h)  == h[1] \div 32
PT(h)       == (h[1] \div 16) % 2
EFlag(h)    == (h[1] \div 4) % 2
LenField(h) == h[3] * 256 + h[4]
WellFormed(h, teid, ext, ptype, qfi, plen) ==
  /\ Version(h) = 1 /\ PT(h) = 1 /\ h[2] = 255
  /\ LenField(h) = Len(h) - 8 + plen                 \* everything after the mandatory header
  /\ <<h[5], h[6], h[7], h[8]>> = teid
  /\ EFlag(h) = 1 /\ h[9] = 0 /\ h[10] = 0 /\ h[11] = 0   \* optional fields present, sequence / N-PDU unused
  /\ IF ext
     THEN /\ h[12] = PSC                             \* next extension header type
          /\ h[13] = 1                               \* one 4-octet unit
          /\ h[14] \div 16 = ptype /\ h[14] % 16 = 0 \* PDU type, spare
          /\ h[15] % 64 = qfi /\ h[15] \div 64 = 0   \* the full 6-bit QFI, PPP/RQI clear
          /\ h[16] = 0                               \* no more extension headers
          /\ Len(h) = 16
     ELSE h[12] = 0 /\ Len(h) = 12

\* ------------------------------------------------------------------ hexadecimal rendering (packets travel as hex strings)
HexDigit == <<"0","1","2","3","4","5","6","7","8","9","a","b","c","d","e","f">>
HexOctet(b) == HexDigit[(b \div 16) + 1] \o HexDigit[(b % 16) + 1]
RECURSIVE HexOf(_)
HexOf(s) == IF s = <<>> THEN "" ELSE HexOctet(Head(s)) \o HexOf(Tail(s))
=============================================================================
