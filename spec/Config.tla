------------------------------- MODULE Config -------------------------------
(***************************************************************************)
(* Reference for C20: which configuration documents must be accepted.      *)
(* A document is abstracted to the class of each field:                    *)
(*   "ok"        a valid value                                             *)
(*   "absent"    the key is missing                                        *)
(*   "empty"     the key is present with an empty value                    *)
(*   "bad"       a value outside the permitted set / malformed             *)
(*   "mistyped"  a value of the wrong YAML type                            *)
(* List-valued keys: "absent", "empty", "ok1" (one good entry), "ok2",     *)
(* "okbad" (a good and a malformed entry), "bad" (one malformed entry).    *)
(* The statement of C20 is silent on some documents (no interface list, an *)
(* out-of-range retry count): the reference then says "either".            *)
(***************************************************************************)
EXTENDS Integers, Sequences, FiniteSets, TLC

Scalar == {"ok", "absent", "empty", "bad", "mistyped"}
Fields == [ version : Scalar, pfcp : {"ok", "absent"}, addr : Scalar, nodeid : Scalar \cup {"unresolvable"},
            rt : {"ok", "absent", "zero", "mistyped"}, maxrt : {"ok", "absent", "range", "mistyped"},
            gtpu : {"ok", "absent"}, fwd : Scalar,
            iflist : {"absent", "empty", "ok1", "ok2", "okbadaddr", "okbadtype", "notype", "noaddr"},
            dnn : {"absent", "empty", "ok1", "ok2", "okbadcidr", "badcidr", "nodnn", "nocidr"},
            logger : {"ok", "absent"}, level : Scalar ]
Good == [ version |-> "ok", pfcp |-> "ok", addr |-> "ok", nodeid |-> "ok", rt |-> "ok", maxrt |-> "ok", gtpu |-> "ok", fwd |-> "ok",
          iflist |-> "ok1", dnn |-> "ok1", logger |-> "ok", level |-> "ok" ]
FieldNames == DOMAIN Good
ListIf == {"absent", "empty", "ok1", "ok2", "okbadaddr", "okbadtype", "notype", "noaddr"}
ListDnn == {"absent", "empty", "ok1", "ok2", "okbadcidr", "badcidr", "nodnn", "nocidr"}
Class(f) == CASE f \in {"version", "addr", "fwd", "level"} -> Scalar
              [] f = "nodeid" -> Scalar \cup {"unresolvable"}
              [] f \in {"pfcp", "gtpu", "logger"} -> {"ok", "absent"}
              [] f = "rt" -> {"ok", "absent", "zero", "mistyped"}
              [] f = "maxrt" -> {"ok", "absent", "range", "mistyped"}
              [] f = "iflist" -> ListIf
              [] f = "dnn" -> ListDnn
\* documents with at most k fields changed with respect to the fault-free document
RECURSIVE UpTo(_)
UpTo(k) == IF k = 0 THEN {Good}
           ELSE LET prev == UpTo(k - 1) IN prev \cup UNION { UNION { {[c EXCEPT ![f] = v] : v \in Class(f)} : f \in FieldNames } : c \in prev }
NFaults(c) == Cardinality({f \in FieldNames : c[f] # Good[f]})

\* must be rejected: something the statement requires is missing or malformed
MustReject(c) ==
  \/ c.version # "ok"
  \/ c.pfcp # "ok" \/ c.addr # "ok" \/ c.nodeid # "ok" \/ c.rt # "ok"
  \/ c.gtpu # "ok" \/ c.fwd # "ok"
  \/ c.iflist \in {"okbadaddr", "okbadtype", "notype", "noaddr"}
  \/ c.dnn \in {"okbadcidr", "badcidr", "nodnn", "nocidr"}
  \/ c.logger # "ok" \/ c.level # "ok"
  \/ c.maxrt = "mistyped"
\* documents on which the statement is silent
Silent(c) == c.iflist \in {"absent", "empty"} \/ c.dnn \in {"absent", "empty"} \/ c.maxrt = "range"
MustAccept(c) == ~MustReject(c) /\ ~Silent(c)
\* fields of the sub-documents are meaningless when the sub-document is absent
Coherent(c) == /\ (c.pfcp = "absent" => c.addr = "ok" /\ c.nodeid = "ok" /\ c.rt = "ok" /\ c.maxrt = "ok")
               /\ (c.gtpu = "absent" => c.fwd = "ok" /\ c.iflist = "ok1")
               /\ (c.logger = "absent" => c.level = "ok")
=============================================================================
