------------------------------- MODULE Flags -------------------------------
(***************************************************************************)
(* Reference for C19: the flag octets of four PFCP IEs, transcribed from   *)
(* TS 29.244 (independently of internal/report/report.go).  A table lists  *)
(* the flag names in wire order: entry i is bit ((i-1) mod 8)+1 of octet   *)
(* 5 + (i-1) div 8.  An IE payload is read as the number                   *)
(*     w = octet5 + 256*octet6 + 65536*octet7.                             *)
(***************************************************************************)
EXTENDS Integers, Sequences, FiniteSets, TLC

\* 8.2.26 Apply Action
ApplyActionTbl == << "DROP", "FORW", "BUFF", "NOCP", "DUPL", "IPMA", "IPMD", "DFRT",
                     "EDRT", "BDPN", "DDPN", "FSSM", "MBSU" >>
\* 8.2.19 Reporting Triggers
ReportingTriggersTbl == << "PERIO", "VOLTH", "TIMTH", "QUHTI", "START", "STOPT", "DROTH", "LIUSA",
                           "VOLQU", "TIMQU", "ENVCL", "MACAR", "EVETH", "EVEQU", "IPMJL", "QUVTI",
                           "REEMR", "UPINT" >>
\* 8.2.41 Usage Report Trigger
UsageReportTriggerTbl == << "PERIO", "VOLTH", "TIMTH", "QUHTI", "START", "STOPT", "DROTH", "IMMER",
                            "VOLQU", "TIMQU", "LIUSA", "TERMR", "MONIT", "ENVCL", "MACAR", "EVETH",
                            "EVEQU", "TEBUR", "IPMJL", "QUVTI", "EMRRE", "UPINT" >>
\* 8.2.40 Volume Measurement (flag octet)
VolumeMeasurementTbl == << "TOVOL", "ULVOL", "DLVOL", "TONOP", "ULNOP", "DLNOP" >>

Pow2(n) == IF n = 0 THEN 1 ELSE 2 * 2 ^ (n - 1)
Bit(w, i) == (w \div (2 ^ (i - 1))) % 2 = 1            \* i = 1 is the least significant bit of octet 5
Decode(tbl, w) == {tbl[i] : i \in {j \in 1..Len(tbl) : Bit(w, j)}}
Encode(tbl, names) == LET idx == {i \in 1..Len(tbl) : tbl[i] \in names}
                          RECURSIVE Sum(_)
                          Sum(S) == IF S = {} THEN 0 ELSE LET x == CHOOSE x \in S : TRUE IN 2 ^ (x - 1) + Sum(S \ {x})
                      IN Sum(idx)
\* the part of a word that an n-octet IE carries
Trunc(w, n) == w % (2 ^ (8 * n))
\* the defined bits of a table
Defined(tbl, w) == w % (2 ^ Len(tbl))
IndexOf(tbl, nm) == CHOOSE i \in 1..Len(tbl) : tbl[i] = nm

\* table sanity: a name occupies one position
TablesOk == \A tbl \in {ApplyActionTbl, ReportingTriggersTbl, UsageReportTriggerTbl, VolumeMeasurementTbl} :
              \A i, j \in 1..Len(tbl) : tbl[i] = tbl[j] => i = j

\* each reporting-trigger cause maps to the usage-report trigger of the same name and to no other
CauseMap(cause) == IF \E i \in 1..Len(ReportingTriggersTbl) : cause = 2 ^ (i - 1)
                   THEN LET nm == ReportingTriggersTbl[CHOOSE i \in 1..Len(ReportingTriggersTbl) : cause = 2 ^ (i - 1)]
                        IN IF \E j \in 1..Len(UsageReportTriggerTbl) : UsageReportTriggerTbl[j] = nm THEN {nm} ELSE {}
                   ELSE {}

\* Volume Measurement flags after "report all volumes (and packet counts if MNOP)"
VolFlags(w, mnop) == Decode(VolumeMeasurementTbl, w) \cup {"TOVOL", "ULVOL", "DLVOL"} \cup (IF mnop THEN {"TONOP", "ULNOP", "DLNOP"} ELSE {})
=============================================================================
