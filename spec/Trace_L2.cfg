SPECIFICATION TraceSpec
CONSTANTS
 QCap = 512
POSTCONDITION TraceAccepted
CHECK_DEADLOCK FALSE
