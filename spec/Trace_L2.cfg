SPECIFICATION TraceSpec
CONSTANTS
 QCap = 512
 PktScale = 256
POSTCONDITION TraceAccepted
CHECK_DEADLOCK FALSE
