------------------------------ MODULE MC_Rules ------------------------------
(***************************************************************************)
(* Enumerates the STRUCTURE of Create/Update PDR, FAR, QER, URR and BAR    *)
(* grouped IEs (optional IEs present / absent / repeated, uplink /         *)
(* downlink, flag subsets) and prints each structure as a test vector; the *)
(* harness concretises the values (boundary and random octets) and the     *)
(* order of the children.  On a canonical concretisation TLC checks that   *)
(* the reference translation does not depend on the order of the children. *)
(***************************************************************************)
EXTENDS RuleXlate, Json
CONSTANT K      \* "pdr" "far" "qer" "urr" "bar"
VARIABLE x
B == BOOLEAN
Dom ==
  CASE K = "pdr" -> [kind : {"pdr"}, create : B, prec : B, ohr : B, far : B, nqer : 0..3, nurr : 0..3, nsdf : 0..2, fteid : B, ueip : B,
                     uplink : B, pdi : B]
    [] K = "far" -> [kind : {"far"}, create : B, aa : 0..2, fp : 0..2, ohc : 0..2, pol : B, smreq : B, bar : B]
    [] K = "qer" -> [kind : {"qer"}, create : B, corr : B, gate : B, mbr : B, gbr : B, qfi : B, rqi : B, ppi : B]
    [] K = "urr" -> [kind : {"urr"}, create : B, meth : B, trig : 0..3, period : B, minfo : B, thr : 0..8, quota : 0..8]
    [] K = "bar" -> [kind : {"bar"}, create : B, delay : B, count : B]
Sane(s) ==
  CASE K = "pdr" -> (~s.pdi => ~s.fteid /\ ~s.ueip /\ s.nsdf = 0 /\ ~s.uplink) /\ (s.nsdf = 2 => s.nqer <= 1 /\ s.nurr <= 1)
    [] K = "far" -> (s.fp = 0 => s.ohc = 0 /\ ~s.pol /\ ~s.smreq)
    [] K = "urr" -> /\ (s.trig \in {1, 3} <=> s.period)    \* periodic trigger comes with a measurement period
                    /\ s.thr # 0 /\ s.quota # 0           \* a threshold / quota IE selecting no volume at all is not well-formed
    [] OTHER -> TRUE
\* ---- canonical concretisation (fixed values) used for the order-independence check of the reference
L(t, v) == [t |-> t, v |-> v, kids |-> << >>, g |-> FALSE]
G(t, kids) == [t |-> t, v |-> << >>, kids |-> kids, g |-> TRUE]
Opt(b, n) == IF b THEN <<n>> ELSE << >>
Rep(n, F(_)) == [i \in 1..n |-> F(i)]
Rule0 == [dir |-> "out", proto |-> 17, src |-> [k |-> "cidr", ip |-> <<10, 1, 2, 3>>, n |-> 24], sports |-> <<[lo |-> 80, hi |-> 90, single |-> FALSE]>>,
          dst |-> [k |-> "assigned", ip |-> <<0, 0, 0, 0>>, n |-> 0], dports |-> << >>]
Canon(s) ==
  CASE s.kind = "pdr" ->
         G(IF s.create THEN IE_CreatePDR ELSE IE_UpdatePDR,
           <<L(IE_PDRID, <<1, 2>>)>> \o Opt(s.prec, L(IE_Precedence, <<0, 0, 1, 0>>))
           \o Opt(s.pdi, G(IE_PDI, <<L(IE_SourceInterface, <<IF s.uplink THEN 0 ELSE 1>>)>> \o Opt(s.fteid, L(IE_FTEID, <<1, 0, 0, 0, 9, 10, 0, 0, 1>>))
                                   \o Opt(s.ueip, L(IE_UEIPAddress, <<2, 10, 60, 0, 7>>))
                                   \o Rep(s.nsdf, LAMBDA i : [t |-> IE_SDFFilter, v |-> <<1, 0, 0, 0>>, kids |-> << >>, g |-> FALSE, rule |-> Rule0])))
           \o Opt(s.ohr, L(IE_OuterHeaderRemoval, <<0>>)) \o Opt(s.far, L(IE_FARID, <<0, 0, 0, 3>>))
           \o Rep(s.nqer, LAMBDA i : L(IE_QERID, <<0, 0, 0, i>>)) \o Rep(s.nurr, LAMBDA i : L(IE_URRID, <<0, 0, 1, i>>)))
    [] s.kind = "far" ->
         G(IF s.create THEN IE_CreateFAR ELSE IE_UpdateFAR,
           <<L(IE_FARID, <<0, 0, 0, 3>>)>> \o (IF s.aa = 1 THEN <<L(IE_ApplyAction, <<2>>)>> ELSE IF s.aa = 2 THEN <<L(IE_ApplyAction, <<12, 1>>)>> ELSE << >>)
           \o Rep(IF s.fp > 0 THEN 1 ELSE 0, LAMBDA i : G(IF s.create THEN IE_FwdParams ELSE IE_UpdFwdParams,
                  <<L(IE_DestinationInterface, <<0>>)>>
                  \o (IF s.ohc = 1 THEN <<L(IE_OuterHeaderCreation, <<1, 0, 0, 0, 0, 77, 10, 1, 1, 1>>)>>
                      ELSE IF s.ohc = 2 THEN <<L(IE_OuterHeaderCreation, <<4, 0, 10, 1, 1, 1, 8, 104>>)>> ELSE << >>)
                  \o Opt(s.pol, L(IE_ForwardingPolicy, <<2, 97, 98>>)) \o Opt(s.smreq, L(IE_PFCPSMReqFlags, <<1>>))))
           \o Opt(s.bar, L(IE_BARID, <<9>>)))
    [] s.kind = "qer" ->
         G(IF s.create THEN IE_CreateQER ELSE IE_UpdateQER,
           <<L(IE_QERID, <<0, 0, 0, 4>>)>> \o Opt(s.corr, L(IE_QERCorrelationID, <<1, 2, 3, 4>>)) \o Opt(s.gate, L(IE_GateStatus, <<5>>))
           \o Opt(s.mbr, L(IE_MBR, <<1, 2, 3, 4, 5, 6, 7, 8, 9, 10>>)) \o Opt(s.gbr, L(IE_GBR, <<11, 12, 13, 14, 15, 16, 17, 18, 19, 20>>))
           \o Opt(s.qfi, L(IE_QFI, <<63>>)) \o Opt(s.rqi, L(IE_RQI, <<1>>)) \o Opt(s.ppi, L(IE_PPI, <<7>>)))
    [] s.kind = "urr" ->
         G(IF s.create THEN IE_CreateURR ELSE IE_UpdateURR,
           <<L(IE_URRID, <<0, 0, 0, 8>>)>> \o Opt(s.meth, L(IE_MeasurementMethod, <<2>>))
           \o (IF s.trig = 0 THEN << >> ELSE <<L(IE_ReportingTriggers, IF s.trig = 1 THEN <<1, 0>> ELSE IF s.trig = 2 THEN <<2, 1, 2>> ELSE <<3, 128, 1>>)>>)
           \o Opt(s.period, L(IE_MeasurementPeriod, <<0, 0, 0, 30>>)) \o Opt(s.minfo, L(IE_MeasurementInformation, <<16>>))
           \o (IF s.thr = 8 THEN << >> ELSE <<L(IE_VolumeThreshold, <<s.thr>> \o [i \in 1..24 |-> i])>>)
           \o (IF s.quota = 8 THEN << >> ELSE <<L(IE_VolumeQuota, <<s.quota>> \o [i \in 1..24 |-> 100 + i])>>))
    [] s.kind = "bar" ->
         G(IF s.create THEN IE_CreateBAR ELSE IE_UpdateBAR,
           <<L(IE_BARID, <<9>>)>> \o Opt(s.delay, L(IE_DDNDelay, <<3>>)) \o Opt(s.count, L(IE_SuggestedBufferingPackets, <<200>>)))
Reversed(n) == [n EXCEPT !.kids = [i \in DOMAIN n.kids |-> IF n.kids[Len(n.kids) + 1 - i].g
                                                                THEN [n.kids[Len(n.kids) + 1 - i] EXCEPT !.kids = Rev(@)]
                                                                ELSE n.kids[Len(n.kids) + 1 - i]]]
Seid0 == <<1, 2, 3, 4, 5, 6, 7, 255>>
Init == x \in Dom /\ Sane(x) /\ PrintT(<<"VEC", ToJson(x)>>)
Next == FALSE /\ x' = x
Spec == Init /\ [][Next]_x
OrderFree == BagOf(Translate(Canon(x), Seid0, <<7, 0, 0, 0>>)) = BagOf(Translate(Reversed(Canon(x)), Seid0, <<7, 0, 0, 0>>))
\* every leaf of the canonical translation has a non-empty path; the rule id leaf is always there
RefSane == LET t == Translate(Canon(x), Seid0, <<7, 0, 0, 0>>) IN
           /\ \A i \in DOMAIN t : t[i].p # ""
           /\ \E i \in DOMAIN t : t[i].p = "3"
=============================================================================
