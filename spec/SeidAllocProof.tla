-------------------------- MODULE SeidAllocProof --------------------------
(* TLAPS: IndInv is an inductive invariant of SeidAlloc for EVERY capacity N (Apalache checks N = 6, TLC N = 5). *)
EXTENDS SeidAlloc, TLAPS, SequenceTheorems

ASSUME NNat == N \in Nat

vars == <<slots, free, last>>
Spec == Init /\ [][Next]_vars

TypeInv == /\ slots \in Seq(BOOLEAN) /\ free \in Seq(Nat) /\ last \in Nat
Inv == TypeInv /\ IndInv

LEMMA InitInv == Init => Inv
  BY NNat DEF Init, Inv, TypeInv, IndInv, TypeOK

LEMMA NewInv == Inv /\ New => Inv'
<1> SUFFICES ASSUME Inv, New PROVE Inv'
  OBVIOUS
<1>1 CASE free # <<>>
  <2> DEFINE n == Len(free)  s == free[n]
  <2>0 /\ n \in Nat /\ n >= 1 /\ n \in DOMAIN free /\ s \in DOMAIN slots /\ ~slots[s] /\ s \in Nat
    BY <1>1, EmptySeq DEF Inv, TypeInv, IndInv, TypeOK
  <2>1 /\ last' = s /\ slots' = [slots EXCEPT ![s] = TRUE] /\ free' = SubSeq(free, 1, n - 1)
    BY <1>1 DEF New
  <2>2 /\ free' \in Seq(Nat) /\ Len(free') = n - 1 /\ \A k \in 1..(n-1) : free'[k] = free[k]
    BY <2>0, <2>1, SubSeqProperties DEF Inv, TypeInv
  <2>3 /\ slots' \in Seq(BOOLEAN) /\ Len(slots') = Len(slots) /\ DOMAIN slots' = DOMAIN slots
    BY <2>0, <2>1 DEF Inv, TypeInv
  <2>4 TypeInv'
    BY <2>0, <2>1, <2>2, <2>3 DEF TypeInv
  <2>5 IndInv'
    <3>1 TypeOK'
      BY <2>0, <2>1, <2>2, <2>3, NNat DEF Inv, IndInv, TypeOK, TypeInv
    <3>2 \A k \in DOMAIN free' : free'[k] \in DOMAIN slots' /\ ~slots'[free'[k]]
      BY <2>0, <2>1, <2>2, <2>3 DEF Inv, IndInv, TypeInv
    <3>3 \A j, k \in DOMAIN free' : j # k => free'[j] # free'[k]
      BY <2>0, <2>1, <2>2, <2>3 DEF Inv, IndInv, TypeInv
    <3>4 \A i \in DOMAIN slots' : ~slots'[i] => \E k \in DOMAIN free' : free'[k] = i
      BY <2>0, <2>1, <2>2, <2>3 DEF Inv, IndInv, TypeInv
    <3>5 last' # 0 => last' \in DOMAIN slots' /\ slots'[last']
      BY <2>0, <2>1, <2>2, <2>3 DEF Inv, IndInv, TypeInv
    <3> QED BY <3>1, <3>2, <3>3, <3>4, <3>5 DEF IndInv
  <2> QED BY <2>4, <2>5 DEF Inv
<1>2 CASE free = <<>>
  <2>1 /\ last' = Len(slots) + 1 /\ slots' = Append(slots, TRUE) /\ free' = free /\ Len(slots) < N
    BY <1>2 DEF New
  <2>2 /\ slots' \in Seq(BOOLEAN) /\ Len(slots') = Len(slots) + 1 /\ \A i \in 1..Len(slots) : slots'[i] = slots[i]
       /\ slots'[Len(slots) + 1] = TRUE /\ DOMAIN slots' = 1..(Len(slots) + 1)
    BY <2>1, AppendProperties DEF Inv, TypeInv
  <2>3 \A i \in DOMAIN slots : slots[i]
    BY <1>2 DEF Inv, IndInv
  <2> QED BY <1>2, <2>1, <2>2, <2>3, NNat DEF Inv, TypeInv, IndInv, TypeOK
<1> QED BY <1>1, <1>2

LEMMA DelInv == ASSUME NEW i \in 1..N PROVE Inv /\ Del(i) => Inv'
<1> SUFFICES ASSUME Inv, Del(i) PROVE Inv'
  OBVIOUS
<1>1 /\ i \in DOMAIN slots /\ slots[i] /\ slots' = [slots EXCEPT ![i] = FALSE] /\ free' = Append(free, i) /\ last' = 0
  BY DEF Del
<1>0 i \in Nat /\ free \in Seq(Nat)
  BY NNat DEF Inv, TypeInv
<1>2 /\ free' \in Seq(Nat) /\ Len(free') = Len(free) + 1 /\ \A k \in 1..Len(free) : free'[k] = free[k]
     /\ free'[Len(free) + 1] = i /\ DOMAIN free' = 1..(Len(free) + 1)
  BY <1>0, <1>1, AppendProperties
<1>3 /\ slots' \in Seq(BOOLEAN) /\ Len(slots') = Len(slots) /\ DOMAIN slots' = DOMAIN slots
  BY <1>1 DEF Inv, TypeInv
<1>4 \A k \in DOMAIN free : free[k] # i
  BY <1>1 DEF Inv, IndInv
<1> QED BY <1>0, <1>1, <1>2, <1>3, <1>4, NNat DEF Inv, TypeInv, IndInv, TypeOK

\* the issuing part of C04 as a property of every step taken from a state satisfying the invariant
LEMMA Issue == Inv => IssueOk
<1> SUFFICES ASSUME Inv, New
             PROVE /\ last' >= 1
                   /\ (last' \in DOMAIN slots => ~slots[last'])
                   /\ \A i \in DOMAIN slots : slots[i] => slots'[i]
  BY DEF IssueOk
<1>1 CASE free # <<>>
  <2> DEFINE n == Len(free)  s == free[n]
  <2>0 /\ n \in Nat /\ n >= 1 /\ n \in DOMAIN free /\ s \in DOMAIN slots /\ ~slots[s] /\ s \in Nat /\ s >= 1
    BY <1>1, EmptySeq DEF Inv, TypeInv, IndInv, TypeOK
  <2>1 /\ last' = s /\ slots' = [slots EXCEPT ![s] = TRUE]
    BY <1>1 DEF New
  <2> QED BY <2>0, <2>1 DEF Inv, TypeInv
<1>2 CASE free = <<>>
  <2>1 /\ last' = Len(slots) + 1 /\ slots' = Append(slots, TRUE)
    BY <1>2 DEF New
  <2>2 /\ Len(slots) \in Nat /\ \A i \in 1..Len(slots) : slots'[i] = slots[i]
    BY <2>1, AppendProperties DEF Inv, TypeInv
  <2> QED BY <2>1, <2>2 DEF Inv, TypeInv
<1> QED BY <1>1, <1>2

THEOREM Safe == Spec => []Inv
<1>1 Inv /\ [Next]_vars => Inv'
  BY NewInv, DelInv DEF Next, vars, Inv, TypeInv, IndInv, TypeOK
<1> QED BY InitInv, <1>1, PTL DEF Spec
=============================================================================
