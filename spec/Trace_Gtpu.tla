----------------------------- MODULE Trace_Gtpu -----------------------------
(* Trace validation for C14: every packet the real encoder produced must be the reference header
   followed by the unchanged payload, and must satisfy the statement's well-formedness reading. *)
EXTENDS GtpuEnc, Json, IOUtils, SequencesExt
Trace == ndJsonDeserialize(IOEnv.VERIF_TRACE)
VARIABLES l, viol
V(ok, tag) == IF ok THEN {} ELSE {tag}
Judge(L) ==
  LET h == Header(L.teid, L.ext, L.ptype, L.qfi, L.plen)
      want == HexOf(h) \o L.phex
  IN UNION {
       V(L.panic = "", "C14:the encoder faulted"),
       V(L.len = Len(h) + L.plen /\ L.ret = L.len, "C14:encoded length differs from header + payload"),
       V(L.hex = want, "C14:encoded packet differs from the reference G-PDU (header fields, extension chain, QFI or payload)"),
       V(WellFormed(h, L.teid, L.ext, L.ptype, L.qfi, L.plen), "INFRA:reference not well-formed") }
Init == l = 1 /\ viol = <<>>
Step == /\ l <= Len(Trace)
        /\ LET v == Judge(Trace[l]) IN viol' = IF v = {} THEN viol ELSE Append(viol, [tr |-> Trace[l].id, i |-> l, tags |-> v])
        /\ l' = l + 1
Finish == /\ l = Len(Trace) + 1
          /\ JsonSerialize(IOEnv.VERIF_VERDICT, [lines |-> Len(Trace), viol |-> viol])
          /\ l' = l + 1 /\ UNCHANGED viol
TraceSpec == Init /\ [][Step \/ Finish]_<<l, viol>>
TraceAccepted == TLCGet("stats").diameter = Len(Trace) + 2
=============================================================================
