------------------------------- MODULE MC_L2 -------------------------------
(* Exhaustive configurations of the full-stack ideal model: every monitor of MonL2.tla holds on every
   step (NoVerdict); every transition is printed with its input path (Gen) for replay on the real stack. *)
EXTENDS UpfL2, Json
CONSTANTS SampleMod, SampleKey
Step ==
  \/ \E n \in {"n1", "n2"} : Assoc(n)
  \/ \E n \in assoc : \E aa \in {4, 12} : \E gnb \in {1, 2} : \E qfi \in {0, 9} : "estbuf" \in Kinds /\ Establish(n, aa, gnb, qfi, <<>>)
  \/ \E n \in assoc : \E P \in Periods : \E Q \in Periods \cup {0} :
        "estper" \in Kinds /\ Establish(n, 2, 1, 9, <<<<1, P>>, <<2, Q>>>>)
  \/ \E i \in Live : Delete(i)
  \/ \E sd \in 1..2 : \E p \in {1, 2} : \E action \in {4, 12, 8} : \E n \in {1, 3} : Buffer(sd, p, action, n)
  \/ \E i \in Live : \E aa \in {1, 2, 4} : \E g \in {0, 2} : UpdateAA(i, aa, g)
  \/ \E P \in Periods \cup {99} : Tick(P)
  \/ \E i \in Live : \E u \in {1, 2} : RemoveUrr(i, u)
  \/ \E i \in Live : \E P \in Periods : AddUrr(i, 3, P)
  \/ \E sd \in 1..2 : \E u \in {1, 3} : \E c \in {2, 256, 65536} : KernelReport(sd, u, c)
Next == turns < MaxTurns /\ Step
Spec == Init /\ [][Next]_vars
NoVerdict == bad = {}
View == <<ss, free, assoc, txseq, tok, base, h, bad>>
Emit == IF SampleMod = 1 \/ Len(ToJson(hist')) % SampleMod = SampleKey THEN PrintT(<<"EDGE", ToJson(hist')>>) ELSE TRUE
=============================================================================
