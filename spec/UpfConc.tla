------------------------------ MODULE UpfConc ------------------------------
(***************************************************************************)
(* Goroutines and bounded channels of go-upf as processes (C17, C18).      *)
(*                                                                         *)
(*   loop    PfcpServer.main: select over rcvCh / srCh / trToCh; one turn  *)
(*           may call the driver, which (a) posts timer events to the      *)
(*           periodic server's evtCh - a BLOCKING send per URR created or  *)
(*           removed - and (b) performs generic-netlink round trips whose  *)
(*           replies only the Mux goroutine delivers                       *)
(*   perio   perio.Server.Serve: consumes evtCh; a tick posts one session  *)
(*           report per session into srCh - a BLOCKING send                *)
(*   mux     nl.Mux.Serve: ONE goroutine that both delivers netlink        *)
(*           replies and runs the buffering listener's handler, which      *)
(*           posts a session report into srCh - a BLOCKING send            *)
(*   timers  time.AfterFunc callbacks: post into trToCh (blocking)         *)
(*   stopper Stop(): closes the socket; the loop then exits and CLOSES     *)
(*           srCh / trToCh; the driver's Close closes evtCh via the perio  *)
(*           server's own exit                                             *)
(*                                                                         *)
(* Channel capacities are constants; the work of a scenario (how many      *)
(* timer events one loop turn posts, how many sessions a tick reports, how *)
(* many notifications arrive during a netlink call) are constants, too.    *)
(* TLC decides for each scenario whether a state is reachable in which     *)
(* nobody can move although work is left (a wedge), and whether a send on  *)
(* a closed channel is reachable.                                          *)
(***************************************************************************)
EXTENDS Integers, Sequences, FiniteSets, TLC

CONSTANTS EvtCap, SrCap, ToCap,   \* capacities of evtCh, srCh, trToCh (model units)
          Dels,      \* timer events the bulk-removal turn posts (model units)
          Reports,   \* sessions reported by the tick (model units)
          Mcasts,    \* notifications the kernel multicasts (model units)
          NlCalls,   \* netlink round trips of the turn that races with the multicasts
          Timers,    \* transaction timers that fire
          WithStop,  \* whether Stop() happens at some point
          DoneChan   \* TRUE: senders select on a done channel that the exiting loop closes (repaired code);
                     \* FALSE: the exiting loop closes srCh / trToCh themselves (code before the repair)

VARIABLES evt, sr, toq,          \* channel contents (lengths suffice: messages are not distinguished here)
          loop,                  \* [pc, dels, calls]   pc: "select" | "posting" | "nlwait" | "exit"
          perio,                 \* [pc, left]          pc: "recv" | "reporting" | "done"
          mux,                   \* [pc, mcasts, reply] pc: "idle" | "notifying"
          tick,                  \* tick not yet posted
          bulk,                  \* bulk-removal datagram not yet consumed
          nlreq,                 \* datagram with netlink calls not yet consumed
          replies,               \* netlink replies waiting at the Mux
          timers,                \* timers not yet fired
          tmr,                   \* number of timer callbacks blocked / about to send
          closed,                \* srCh / trToCh closed by the exiting loop
          stopreq,               \* Stop() requested
          served,                \* session reports consumed by the loop
          bad                    \* "send on closed channel" happened

vars == <<evt, sr, toq, loop, perio, mux, tick, bulk, nlreq, replies, timers, tmr, closed, stopreq, served, bad>>

Init ==
  /\ evt = 0 /\ sr = 0 /\ toq = 0
  /\ loop = [pc |-> "select", dels |-> 0, calls |-> 0]
  /\ perio = [pc |-> "recv", left |-> 0]
  /\ mux = [pc |-> "idle", mcasts |-> Mcasts]
  /\ tick = (Reports > 0) /\ bulk = (Dels > 0) /\ nlreq = (NlCalls > 0)
  /\ replies = 0 /\ timers = Timers /\ tmr = 0 /\ closed = FALSE /\ stopreq = FALSE /\ served = 0 /\ bad = FALSE

\* ------------------------------------------------------------------ the PFCP event loop
LoopSelect ==
  /\ loop.pc = "select" /\ ~closed
  /\ \/ /\ sr > 0 /\ sr' = sr - 1 /\ served' = served + 1                    \* case sr := <-s.srCh
        /\ UNCHANGED <<evt, toq, loop, bulk, nlreq>>
     \/ /\ toq > 0 /\ toq' = toq - 1                                          \* case trTo := <-s.trToCh
        /\ UNCHANGED <<evt, sr, loop, bulk, nlreq, served>>
     \/ /\ bulk /\ bulk' = FALSE /\ loop' = [loop EXCEPT !.pc = "posting", !.dels = Dels]   \* re-association / deletion: bulk rule removal
        /\ UNCHANGED <<evt, sr, toq, nlreq, served>>
     \/ /\ nlreq /\ nlreq' = FALSE /\ loop' = [loop EXCEPT !.pc = "nlwait", !.calls = NlCalls]
        /\ UNCHANGED <<evt, sr, toq, bulk, served>>
     \/ /\ stopreq /\ loop' = [loop EXCEPT !.pc = "exit"]                     \* receiver posted the empty packet
        /\ UNCHANGED <<evt, sr, toq, bulk, nlreq, served>>
  /\ UNCHANGED <<perio, mux, tick, replies, timers, tmr, closed, stopreq, bad>>

\* Gtp5g.RemoveURR -> perio.DelPeriodReportTimer: s.evtCh <- Event{...}   (blocks while evtCh is full)
LoopPost ==
  /\ loop.pc = "posting" /\ evt < EvtCap
  /\ evt' = evt + 1
  /\ loop' = IF loop.dels = 1 THEN [loop EXCEPT !.pc = "select", !.dels = 0] ELSE [loop EXCEPT !.dels = @ - 1]
  /\ UNCHANGED <<sr, toq, perio, mux, tick, bulk, nlreq, replies, timers, tmr, closed, stopreq, served, bad>>

\* nl.Client.Do: request written, reply awaited from the Mux goroutine
LoopNlSend ==
  /\ loop.pc = "nlwait" /\ loop.calls > 0 /\ replies = 0
  /\ replies' = 1
  /\ UNCHANGED <<evt, sr, toq, loop, perio, mux, tick, bulk, nlreq, timers, tmr, closed, stopreq, served, bad>>

\* deferred function of main: close(s.srCh); close(s.trToCh)
LoopExit ==
  /\ loop.pc = "exit" /\ ~closed
  /\ closed' = TRUE
  /\ UNCHANGED <<evt, sr, toq, loop, perio, mux, tick, bulk, nlreq, replies, timers, tmr, stopreq, served, bad>>

\* ------------------------------------------------------------------ the periodic server
PerioTickPosted ==     \* the ticker goroutine posts the tick event (blocking send into evtCh)
  /\ tick /\ evt < EvtCap
  /\ tick' = FALSE /\ evt' = evt + 1 /\ perio' = [perio EXCEPT !.left = IF @ = 0 THEN -1 ELSE @]   \* -1: a tick is somewhere in evtCh
  /\ UNCHANGED <<sr, toq, loop, mux, bulk, nlreq, replies, timers, tmr, closed, stopreq, served, bad>>
\* for e := range s.evtCh: a timer event costs nothing, the tick starts the reporting loop.
\* (which queued event is the tick is not tracked: the tick is taken to be consumed at any receive after it was posted)
PerioRecv ==
  /\ perio.pc = "recv" /\ evt > 0
  /\ evt' = evt - 1
  /\ \/ /\ perio.left = -1 /\ perio' = [pc |-> "reporting", left |-> Reports]
     \/ /\ perio' = perio /\ (perio.left = -1 => evt > 1)      \* a timer event (if the tick is the only queued event it is the one received)
  /\ UNCHANGED <<sr, toq, loop, mux, tick, bulk, nlreq, replies, timers, tmr, closed, stopreq, served, bad>>
\* s.handler.NotifySessReport(...): s.srCh <- sr   (blocks while srCh is full; panics if srCh is closed)
PerioReport ==
  /\ perio.pc = "reporting"
  /\ IF closed THEN bad' = ~DoneChan /\ perio' = [pc |-> "recv", left |-> 0] /\ sr' = sr
     ELSE /\ sr < SrCap /\ sr' = sr + 1 /\ bad' = bad
          /\ perio' = IF perio.left = 1 THEN [pc |-> "recv", left |-> 0] ELSE [perio EXCEPT !.left = @ - 1]
  /\ UNCHANGED <<evt, toq, loop, mux, tick, bulk, nlreq, replies, timers, tmr, closed, stopreq, served>>

\* ------------------------------------------------------------------ the Mux goroutine (netlink replies AND the buffering listener)
MuxReply ==
  /\ mux.pc = "idle" /\ replies > 0 /\ loop.pc = "nlwait"
  /\ replies' = 0
  /\ loop' = IF loop.calls = 1 THEN [loop EXCEPT !.pc = "select", !.calls = 0] ELSE [loop EXCEPT !.calls = @ - 1]
  /\ UNCHANGED <<evt, sr, toq, perio, mux, tick, bulk, nlreq, timers, tmr, closed, stopreq, served, bad>>
MuxMcast ==
  /\ mux.pc = "idle" /\ mux.mcasts > 0
  /\ mux' = [pc |-> "notifying", mcasts |-> mux.mcasts - 1]
  /\ UNCHANGED <<evt, sr, toq, loop, perio, tick, bulk, nlreq, replies, timers, tmr, closed, stopreq, served, bad>>
MuxNotify ==
  /\ mux.pc = "notifying"
  /\ IF closed THEN bad' = ~DoneChan /\ sr' = sr /\ mux' = [mux EXCEPT !.pc = "idle"]
     ELSE sr < SrCap /\ sr' = sr + 1 /\ bad' = bad /\ mux' = [mux EXCEPT !.pc = "idle"]
  /\ UNCHANGED <<evt, toq, loop, perio, tick, bulk, nlreq, replies, timers, tmr, closed, stopreq, served>>

\* ------------------------------------------------------------------ transaction timers and Stop
TimerFire ==     \* time.AfterFunc callback starts: it will call NotifyTransTimeout
  /\ timers > 0 /\ timers' = timers - 1 /\ tmr' = tmr + 1
  /\ UNCHANGED <<evt, sr, toq, loop, perio, mux, tick, bulk, nlreq, replies, closed, stopreq, served, bad>>
TimerSend ==     \* s.trToCh <- TransactionTimeout{...}
  /\ tmr > 0
  /\ IF closed THEN bad' = ~DoneChan /\ toq' = toq /\ tmr' = tmr - 1
     ELSE toq < ToCap /\ toq' = toq + 1 /\ tmr' = tmr - 1 /\ bad' = bad
  /\ UNCHANGED <<evt, sr, loop, perio, mux, tick, bulk, nlreq, replies, timers, closed, stopreq, served>>
Stop ==
  /\ WithStop /\ ~stopreq /\ stopreq' = TRUE
  /\ UNCHANGED <<evt, sr, toq, loop, perio, mux, tick, bulk, nlreq, replies, timers, tmr, closed, served, bad>>

Next == LoopSelect \/ LoopPost \/ LoopNlSend \/ LoopExit \/ PerioTickPosted \/ PerioRecv \/ PerioReport
        \/ MuxReply \/ MuxMcast \/ MuxNotify \/ TimerFire \/ TimerSend \/ Stop
Spec == Init /\ [][Next]_vars /\ WF_vars(Next)

\* ------------------------------------------------------------------ properties
WorkLeft == bulk \/ nlreq \/ tick \/ loop.pc \in {"posting", "nlwait"} \/ perio.pc = "reporting" \/ perio.left = -1 \/ evt > 0
            \/ sr > 0 \/ mux.pc = "notifying" \/ mux.mcasts > 0 \/ toq > 0 \/ tmr > 0 \/ timers > 0
\* C18: as long as work is left (and the UPF has not been stopped) somebody can move
NoWedge == (WorkLeft /\ ~closed /\ loop.pc # "exit") => ENABLED Next
\* C17: nobody sends on a channel the exiting loop has closed
NoSendOnClosed == ~bad
\* every report notification is consumed exactly once (no loss, no duplication) when everything has drained
Reported == Reports + Mcasts
AllServed == (~WorkLeft /\ ~closed /\ ~WithStop) => served = Reported
=============================================================================
