---------------------------- MODULE SeidAllocInd ----------------------------
(* Apalache front-end: an arbitrary state of bounded size satisfying the inductive invariant *)
EXTENDS SeidAlloc, Apalache
CInit == N = 6
IndInit == /\ slots = Gen(6) /\ free = Gen(6) /\ last \in 0..6 /\ IndInv
=============================================================================
