SPECIFICATION TraceSpec
CONSTANTS
  Peers = {"p1", "p2", "p3", "p4", "q1", "q2"}
  NodeIds = {"n1", "n2", "n3", "n4"}
  CpSeids = {"7"}
  EstOps = {}
  ModOps = {}
  FaultSets = {}
  Fault2Sets = {}
  SeidLits = {}
  Kinds = {"hb", "assoc", "assocupd", "assocrel", "est", "mod", "del", "report", "rptrsp", "hbrsp", "txto", "rxto", "takeover", "dup"}
  MaxSlots = 100000
  MaxTurns = 0
  MaxRt = 1
  TxSeq0 = 0
  SeqNos = {1}
POSTCONDITION TraceAccepted
CHECK_DEADLOCK FALSE
