---------------------------- MODULE Trace_Config ----------------------------
(* Trace validation for C20: ReadConfig accepts exactly the documents the statement allows and
   returns their values unchanged; a rejected document yields no configuration object. *)
EXTENDS Config, Json, IOUtils, SequencesExt
Trace == ndJsonDeserialize(IOEnv.VERIF_TRACE)
VARIABLES l, viol
V(ok, tag) == IF ok THEN {} ELSE {tag}
Unchanged(L) ==
  LET w == L.want  g == L.got IN
  /\ g.version = w.version /\ g.addr = w.addr /\ g.nodeid = w.nodeid /\ g.rt = w.rt /\ g.forwarder = w.forwarder /\ g.level = w.level
  /\ (L.st.maxrt = "ok" => g.maxrt = w.maxrt)
  /\ g.ifaddrs = w.ifaddrs /\ g.iftypes = w.iftypes /\ g.dnns = w.dnns /\ g.cidrs = w.cidrs
  \* the optional values (description, interface name / ifname / mtu, NAT interface, logger switches), in document order
  /\ g.extra = w.extra
Judge(L) ==
  IF L.panic # "" THEN {"C20:configuration reading faulted"}
  ELSE UNION {
    V(MustReject(L.st) => ~L.accepted, "C20:a configuration the statement excludes was accepted"),
    V(MustAccept(L.st) => L.accepted, "C20:a valid configuration was rejected"),
    V(~L.accepted => L.nilcfg, "C20:a rejected configuration still yielded a (partially initialised) configuration object"),
    V(L.accepted /\ ~MustReject(L.st) => Unchanged(L), "C20:accepted values differ from the document") }
Init == l = 1 /\ viol = <<>>
Step == /\ l <= Len(Trace)
        /\ LET v == Judge(Trace[l]) IN viol' = IF v = {} THEN viol ELSE Append(viol, [tr |-> Trace[l].id, i |-> l, tags |-> v])
        /\ l' = l + 1
Finish == /\ l = Len(Trace) + 1
          /\ JsonSerialize(IOEnv.VERIF_VERDICT, [lines |-> Len(Trace), viol |-> viol])
          /\ l' = l + 1 /\ UNCHANGED viol
TraceSpec == Init /\ [][Step \/ Finish]_<<l, viol>>
TraceAccepted == TLCGet("stats").diameter = Len(Trace) + 2
=============================================================================
