------------------------------- MODULE UpfL2 -------------------------------
(***************************************************************************)
(* Ideal model of the full stack for the behaviours MonL2.tla judges:      *)
(* packet buffering (Sess.Push / Pop, Gtp5g.applyAction, buffnetlink),     *)
(* periodic reporting (perio.Server groups, tickers, multi-URR query) and  *)
(* usage reports multicast by the kernel.  One action = one externally     *)
(* triggered event with everything it causes (the harness waits for the    *)
(* loop, the periodic server and the Mux to drain between events).         *)
(*                                                                         *)
(* Every step produces the record L in the format of the L2 executor, so   *)
(* the same monitors judge model steps and recorded steps, and the events  *)
(* (hist) are replayed on the real stack; one model packet stands for      *)
(* PktScale real packets, the model's QCap for QCap * PktScale (= 512).    *)
(***************************************************************************)
EXTENDS MonL2

CONSTANTS MaxTurns, Periods, Kinds
VARIABLES ss,        \* sessions: sequence (slot = SEID) of [live, cp, node, far, pdrs, qfi, urrs, q]
          free, assoc, txseq, tok, base,
          L, h, bad, hist, turns
vars == <<ss, free, assoc, txseq, tok, base, L, h, bad, hist, turns>>

NoSess == [live |-> FALSE, cp |-> "", node |-> "", aa |-> 0, teid |-> 0, gnb |-> 0, pdrs |-> {}, qfi |-> 0, urrs |-> {}, q |-> <<>>]
Ev(t) == [t |-> t, peer |-> "", seq |-> 0, node |-> "", cp |-> "", seid |-> "", sref |-> 0, rref |-> 0, ops |-> <<>>, faults |-> <<>>,
          faults2 |-> <<>>, reports |-> <<>>, tt |-> "", tpeer |-> "", tseq |-> 0, raw |-> "", maxrt |-> 0, txseq0 |-> "", tag |-> "",
          pdr |-> 0, action |-> 0, n |-> 0, base |-> 0, period |-> 0, kreps |-> <<>>, exp |-> <<>>]
Op(o, kind, id) == [op |-> o, kind |-> kind, id |-> id, urrs |-> <<>>, hasurrs |-> FALSE, ueip |-> FALSE, far |-> 0, meth |-> -1, minfo |-> -1,
                    aa |-> 0, teid |-> 0, gnb |-> 0, qers |-> <<>>, qfi |-> 0, perio |-> FALSE, period |-> 0]
Dgram(to, mt, seq, seid) == [to |-> to, mt |-> mt, seq |-> seq, hasseid |-> TRUE, seid |-> seid, cause |-> 0, node |-> "", fseid |-> "", rts |-> "",
                             created |-> <<>>, rpts |-> <<>>, dldr |-> <<>>, rtype |-> 0, hex |-> "", bad |-> ""]
NoVals == [tv |-> "", uv |-> "", dv |-> "", tp |-> "", up |-> "", dp |-> "", st |-> "", et |-> "", du |-> ""]
ValsOfTok(k) == [tv |-> "tv" \o ToString(k), uv |-> "uv" \o ToString(k), dv |-> "dv" \o ToString(k), tp |-> "-", up |-> "-", dp |-> "-",
                 st |-> "st" \o ToString(k), et |-> "et" \o ToString(k), du |-> "-"]
Pkt(k) == "pkt" \o ToString(k)
SeidStr(i) == ToString(i)
Live == {i \in DOMAIN ss : ss[i].live}
TRIG_TERMR == 2048
RepT(u, trig, k) == [urr |-> u, seqn |-> 0, trig |-> trig, vf |-> 7, dur |-> FALSE, vals |-> ValsOfTok(k)]

Queues == FlattenSeq([i \in DOMAIN ss |-> IF ss[i].live THEN [j \in DOMAIN ss[i].q |-> [seid |-> SeidStr(i), pdr |-> j, len |-> Len(ss[i].q[j])]] ELSE <<>>])
QueuesOf(s2) == FlattenSeq([i \in DOMAIN s2 |-> IF s2[i].live THEN [j \in DOMAIN s2[i].q |-> [seid |-> SeidStr(i), pdr |-> j, len |-> Len(s2[i].q[j])]] ELSE <<>>])
TickersOf(s2) == Cardinality(UNION {{u.period : u \in {x \in s2[i].urrs : x.perio}} : i \in {j \in DOMAIN s2 : s2[j].live}})

KRulesOf(s2) == FlattenSeq([i \in DOMAIN s2 |-> IF ~s2[i].live THEN <<>> ELSE
                   <<[kind |-> "far", seid |-> SeidStr(i), id |-> 1], [kind |-> "qer", seid |-> SeidStr(i), id |-> 1]>>
                   \o [k \in 1..Cardinality(s2[i].urrs) |-> [kind |-> "urr", seid |-> SeidStr(i), id |-> SetToSeq({u.id : u \in s2[i].urrs})[k]]]
                   \o [k \in 1..Cardinality(s2[i].pdrs) |-> [kind |-> "pdr", seid |-> SeidStr(i), id |-> SetToSeq(s2[i].pdrs)[k]]]])
CommitT(e, out, gpdu, mq, mqr, pkts, s2) ==
  LET Lx == [tr |-> "mc", i |-> turns + 1, e |-> e, calls |-> <<>>, gets |-> 0, mq |-> mq, mqr |-> mqr, out |-> out, gpdu |-> gpdu, krules |-> KRulesOf(s2),
             snap |-> [rx |-> <<>>, tx |-> <<>>, txseq |-> "", free |-> <<>>, live |-> <<>>, nodes |-> <<>>],
             queues |-> QueuesOf(s2), tickers |-> TickersOf(s2), pkts |-> pkts, fatal |-> ""]
      r == StepL2(h, Lx)
  IN /\ L' = Lx /\ bad' = r.v /\ h' = r.h /\ hist' = Append(hist, [e EXCEPT !.exp = <<ProjL2(Lx)>>]) /\ turns' = turns + 1

Commit(e, out, gpdu, mq, pkts, s2) == CommitT(e, out, gpdu, mq, <<>>, pkts, s2)

\* ------------------------------------------------------------------ sessions
Assoc(n) ==
  LET e == [Ev("assoc") EXCEPT !.peer = NodePeer(n), !.seq = turns + 1, !.node = n]
      s2 == [i \in DOMAIN ss |-> IF ss[i].live /\ ss[i].node = n THEN NoSess ELSE ss[i]]
      gone == {i \in DOMAIN ss : ss[i].live /\ ss[i].node = n}
  IN /\ "assoc" \in Kinds
     /\ ss' = s2 /\ free' = free \o SetToSeq(gone) /\ assoc' = assoc \cup {n}
     /\ Commit(e, <<[Dgram(NodePeer(n), 6, turns + 1, "") EXCEPT !.cause = 1, !.node = "upf", !.hasseid = FALSE]>>, <<>>, <<>>, <<>>, s2)
     /\ UNCHANGED <<txseq, tok, base>>

\* one FAR (id 1) shared by PDR 1 and 2, QER 1 with the QFI, optionally periodic URRs
Establish(n, aa, gnb, qfi, urrs) ==
  LET sd == IF free # <<>> THEN free[Len(free)] ELSE Len(ss) + 1
      cp == "10" \o ToString(turns)
      ops == <<[Op("create", "far", 1) EXCEPT !.aa = aa, !.teid = 70 + sd, !.gnb = gnb], [Op("create", "qer", 1) EXCEPT !.qfi = qfi]>>
             \o [k \in 1..Len(urrs) |-> [Op("create", "urr", urrs[k][1]) EXCEPT !.meth = 2, !.perio = urrs[k][2] > 0, !.period = urrs[k][2]]]
             \o <<[Op("create", "pdr", 1) EXCEPT !.far = 1, !.qers = <<1>>], [Op("create", "pdr", 2) EXCEPT !.far = 1, !.qers = <<1>>]>>
      e == [Ev("est") EXCEPT !.peer = NodePeer(n), !.seq = turns + 1, !.node = n, !.cp = cp, !.ops = ops]
      rec == [live |-> TRUE, cp |-> cp, node |-> n, aa |-> aa, teid |-> 70 + sd, gnb |-> gnb, pdrs |-> {1, 2}, qfi |-> qfi,
              urrs |-> {[id |-> urrs[k][1], perio |-> urrs[k][2] > 0, period |-> urrs[k][2]] : k \in 1..Len(urrs)}, q |-> <<<<>>, <<>>>>]
      s2 == IF sd > Len(ss) THEN Append(ss, rec) ELSE [ss EXCEPT ![sd] = rec]
      d == [Dgram(NodePeer(n), 51, turns + 1, cp) EXCEPT !.cause = 1, !.fseid = SeidStr(sd), !.node = "upf"]
  IN /\ n \in assoc /\ (free # <<>> \/ Len(ss) < 2)
     /\ ss' = s2 /\ free' = IF free # <<>> THEN SubSeq(free, 1, Len(free) - 1) ELSE free
     /\ Commit(e, <<d>>, <<>>, <<>>, <<>>, s2)
     /\ UNCHANGED <<assoc, txseq, tok, base>>

Delete(i) ==
  LET e == [Ev("del") EXCEPT !.peer = "p1", !.seq = turns + 1, !.seid = SeidStr(i), !.sref = 0]
      s2 == [ss EXCEPT ![i] = NoSess]
      us == SetToSeq({u.id : u \in ss[i].urrs})
      \* every URR of the session returns its final usage in the Deletion Response (C12)
      rp == [k \in DOMAIN us |-> RepT(us[k], TRIG_TERMR, tok + k)]
  IN /\ "del" \in Kinds /\ i \in Live
     /\ ss' = s2 /\ free' = Append(free, i) /\ tok' = tok + Len(us)
     /\ Commit(e, <<[Dgram("p1", 55, turns + 1, ss[i].cp) EXCEPT !.cause = 1, !.rpts = rp]>>, <<>>, <<>>, <<>>, s2)
     /\ UNCHANGED <<assoc, txseq, base>>

\* ------------------------------------------------------------------ buffering
\* n packets handed up by the kernel for PDR p of session sd (sd may be dead)
Buffer(sd, p, action, n) ==
  LET e == [Ev("kbuf") EXCEPT !.seid = SeidStr(sd), !.pdr = p, !.action = action, !.n = n, !.base = base]
      pk == [k \in 1..n |-> Pkt(base + k - 1)]
      live == sd \in Live
      s == ss[sd]
      room == QCap - Len(s.q[p])
      add == IF BitSet(action, ACT_BUFF) THEN (IF room <= 0 THEN <<>> ELSE IF n <= room THEN pk ELSE SubSeq(pk, 1, room)) ELSE <<>>
      s2 == IF live THEN [ss EXCEPT ![sd].q[p] = @ \o add] ELSE ss
      out == IF live /\ BitSet(action, ACT_NOCP)
             THEN [k \in 1..n |-> [Dgram(NodePeer(s.node), MT_SRREQ, txseq + k - 1, s.cp) EXCEPT !.dldr = <<p>>, !.rtype = 1]]
             ELSE <<>>
  IN /\ "kbuf" \in Kinds /\ sd \in 1..2 /\ (sd \in DOMAIN ss \/ ~live)
     /\ ss' = s2 /\ base' = base + n /\ txseq' = txseq + Len(out)
     /\ Commit(e, out, <<>>, <<>>, pk, s2)
     /\ UNCHANGED <<free, assoc, tok>>

\* Update FAR 1 with a new apply action (optionally new tunnel parameters)
Gp(to, teid, qfi, payload) == [to |-> to, hex |-> "", teid |-> teid, ext |-> qfi # 0, qfi |-> IF qfi # 0 THEN qfi ELSE -1, payload |-> payload, bad |-> ""]
UpdateAA(i, aa, newgnb) ==
  LET s == ss[i]
      e == [Ev("mod") EXCEPT !.peer = "p1", !.seq = turns + 1, !.seid = SeidStr(i),
                             !.ops = <<[Op("update", "far", 1) EXCEPT !.aa = aa, !.gnb = newgnb, !.teid = IF newgnb > 0 THEN 90 + i ELSE 0]>>]
      buffering == BitSet(s.aa, ACT_BUFF)
      release == buffering /\ ~BitSet(aa, ACT_DROP) /\ BitSet(aa, ACT_FORW)
      drain == buffering /\ (BitSet(aa, ACT_DROP) \/ BitSet(aa, ACT_FORW))
      \* the driver reads the FAR as it is BEFORE the update: the old tunnel parameters address the release
      gp == IF release THEN FlattenSeq([p \in 1..2 |-> [k \in DOMAIN s.q[p] |-> Gp(GnbName(s.gnb), s.teid, s.qfi, s.q[p][k])]]) ELSE <<>>
      s2 == [ss EXCEPT ![i].aa = aa, ![i].gnb = IF newgnb > 0 THEN newgnb ELSE @, ![i].teid = IF newgnb > 0 THEN 90 + i ELSE @,
                       ![i].q = IF drain THEN <<<<>>, <<>>>> ELSE @]
  IN /\ "mod" \in Kinds /\ i \in Live
     /\ ss' = s2
     /\ Commit(e, <<[Dgram("p1", 53, turns + 1, s.cp) EXCEPT !.cause = 1]>>, gp, <<>>, <<>>, s2)
     /\ UNCHANGED <<free, assoc, txseq, tok, base>>

\* ------------------------------------------------------------------ periodic reporting and kernel reports
Rep(u, trig, k) == [urr |-> u, seqn |-> 0, trig |-> trig, vf |-> 7, dur |-> FALSE, vals |-> ValsOfTok(k)]
Tick(P) ==
  LET e == [Ev("tick") EXCEPT !.period = P]
      reg(i) == {u \in ss[i].urrs : u.perio /\ u.period = P}
      sess == SetToSeq({i \in Live : reg(i) # {}})
      \* every registered (session, URR) pair once; the kernel's measurement for the i-th pair carries token tok + i
      ent == FlattenSeq([k \in DOMAIN sess |-> [j \in 1..Cardinality(reg(sess[k])) |->
                 [sd |-> sess[k], u |-> SetToSeq({u.id : u \in reg(sess[k])})[j]]]])
      oids == [i \in DOMAIN ent |-> OidStr(SeidStr(ent[i].sd), ent[i].u)]
      mqr == [i \in DOMAIN ent |-> [seid |-> SeidStr(ent[i].sd), urr |-> ent[i].u, tv |-> ValsOfTok(tok + i).tv]]
      mine(k) == SelectSeq([i \in DOMAIN ent |-> i], LAMBDA i : ent[i].sd = sess[k])
      out == [k \in DOMAIN sess |->
                [Dgram(NodePeer(ss[sess[k]].node), MT_SRREQ, txseq + k - 1, ss[sess[k]].cp) EXCEPT
                   !.rtype = 2, !.rpts = [j \in DOMAIN mine(k) |-> Rep(ent[mine(k)[j]].u, TRIG_PERIO, tok + mine(k)[j])]]]
  IN /\ "tick" \in Kinds
     /\ txseq' = txseq + Len(out) /\ tok' = tok + Len(oids)
     /\ CommitT(e, out, <<>>, IF oids = <<>> THEN <<>> ELSE <<oids>>, mqr, <<>>, ss)
     /\ UNCHANGED <<ss, free, assoc, base>>

RemoveUrr(i, u) ==
  LET e == [Ev("mod") EXCEPT !.peer = "p1", !.seq = turns + 1, !.seid = SeidStr(i), !.ops = <<Op("remove", "urr", u)>>]
      s2 == [ss EXCEPT ![i].urrs = {x \in @ : x.id # u}]
  IN /\ "rmurr" \in Kinds /\ i \in Live /\ \E x \in ss[i].urrs : x.id = u
     /\ ss' = s2 /\ tok' = tok + 1
     /\ Commit(e, <<[Dgram("p1", 53, turns + 1, ss[i].cp) EXCEPT !.cause = 1, !.rpts = <<RepT(u, TRIG_TERMR, tok + 1)>>]>>, <<>>, <<>>, <<>>, s2)
     /\ UNCHANGED <<free, assoc, txseq, base>>

\* a further periodic URR for a session that may already have some (Create URR in a Modification Request)
AddUrr(i, u, P) ==
  LET e == [Ev("mod") EXCEPT !.peer = "p1", !.seq = turns + 1, !.seid = SeidStr(i),
                             !.ops = <<[Op("create", "urr", u) EXCEPT !.meth = 2, !.perio = TRUE, !.period = P]>>]
      s2 == [ss EXCEPT ![i].urrs = @ \cup {[id |-> u, perio |-> TRUE, period |-> P]}]
  IN /\ "addurr" \in Kinds /\ i \in Live /\ ~\E x \in ss[i].urrs : x.id = u
     /\ ss' = s2
     /\ Commit(e, <<[Dgram("p1", 53, turns + 1, ss[i].cp) EXCEPT !.cause = 1]>>, <<>>, <<>>, <<>>, s2)
     /\ UNCHANGED <<free, assoc, txseq, tok, base>>

\* one REPORT multicast carrying a report for URR u of session sd with reporting-trigger cause c
KernelReport(sd, u, c) ==
  LET kr == [sref |-> 0, seid |-> SeidStr(sd), urr |-> u, trig |-> c, tok |-> tok + 1, vals |-> ValsOfTok(tok + 1)]
      e == [Ev("krep") EXCEPT !.kreps = <<kr>>]
      known == sd \in Live /\ \E x \in ss[sd].urrs : x.id = u
      out == IF known THEN <<[Dgram(NodePeer(ss[sd].node), MT_SRREQ, txseq, ss[sd].cp) EXCEPT !.rtype = 2,
                                     !.rpts = <<Rep(u, Encode(UsageReportTriggerTbl, CauseMap(c)), tok + 1)>>]>>
             ELSE IF sd \in Live THEN <<[Dgram(NodePeer(ss[sd].node), MT_SRREQ, txseq, ss[sd].cp) EXCEPT !.rtype = 2]>> ELSE <<>>
  IN /\ "krep" \in Kinds /\ sd \in 1..2
     /\ tok' = tok + 1 /\ txseq' = txseq + Len(out)
     /\ Commit(e, out, <<>>, <<>>, <<>>, ss)
     /\ UNCHANGED <<ss, free, assoc, base>>

Init ==
  /\ ss = <<>> /\ free = <<>> /\ assoc = {} /\ txseq = 0 /\ tok = 0 /\ base = 0
  /\ L = [tr |-> "mc", i |-> 0, e |-> Ev("init"), calls |-> <<>>, gets |-> 0, mq |-> <<>>, mqr |-> <<>>, out |-> <<>>, gpdu |-> <<>>, krules |-> <<>>,
          snap |-> [rx |-> <<>>, tx |-> <<>>, txseq |-> "", free |-> <<>>, live |-> <<>>, nodes |-> <<>>], queues |-> <<>>, tickers |-> 0,
          pkts |-> <<>>, fatal |-> ""]
  /\ h = H0 /\ bad = {} /\ hist = <<>> /\ turns = 0
=============================================================================
