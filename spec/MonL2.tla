------------------------------- MODULE MonL2 -------------------------------
(***************************************************************************)
(* Property monitors for the full stack (harness level L2: real PFCP       *)
(* server + real gtp5g driver + real periodic server + real buffering      *)
(* listener on a simulated gtp5g kernel).                                  *)
(*                                                                         *)
(* C13  buffered downlink packets: per (session, PDR) FIFO of bounded      *)
(*      capacity, downlink-data notification with NOCP, release on         *)
(*      BUFF -> FORW (in order, once, right tunnel, QFI), discard on DROP, *)
(*      nothing after session end / SEID re-use.                           *)
(* C15  a periodic tick queries exactly the URRs registered with that      *)
(*      period and delivers each report once, flagged periodic.            *)
(* C10  usage reports multicast by the kernel reach the owning SMF intact. *)
(*                                                                         *)
(* The ghost state is a function of the inputs (requests, kernel           *)
(* notifications, ticks); the step record L has the format written by the  *)
(* L2 executor (harness/pfcp/zz_verif_l2_test.go).                         *)
(***************************************************************************)
EXTENDS Integers, Sequences, FiniteSets, SequencesExt, TLC, Flags

CONSTANT QCap          \* capacity of a buffer queue (512 in the implementation)

ACT_DROP == 1   ACT_FORW == 2   ACT_BUFF == 4   ACT_NOCP == 8
MT_SRREQ == 56   MT_ESTRSP == 51
TRIG_PERIO == 1
Rng(s) == {s[i] : i \in DOMAIN s}
BitSet(x, b) == (x \div b) % 2 = 1
V(ok, tag) == IF ok THEN {} ELSE {tag}
NodePeer(n) == CASE n = "n1" -> "p1" [] n = "n2" -> "p2" [] n = "n3" -> "p3" [] n = "n4" -> "p4" [] n = "n5" -> "p5" [] OTHER -> "none"
GnbName(i) == "g" \o ToString(i)

H0 == [ assoc |-> {}, live |-> {}, far |-> {}, pdr |-> {}, qer |-> {}, urr |-> {}, q |-> {}, seen |-> {}, skip |-> FALSE ]
\* seen: every payload the kernel has handed up so far (C14: what is re-injected is one of them, unchanged)
\* live: [seid, cp, node]; far: [seid, id, aa, teid, gnb]; pdr: [seid, id, far, qers]; qer: [seid, id, qfi]
\* urr: [seid, id, perio, period, volum]; q: [seid, pdr, pkts (sequence of payload hex strings)]

LiveSeids(h) == {s.seid : s \in h.live}
SessOf(h, sd) == CHOOSE s \in h.live : s.seid = sd
QOf(h, sd, p) == IF \E x \in h.q : x.seid = sd /\ x.pdr = p THEN (CHOOSE x \in h.q : x.seid = sd /\ x.pdr = p).pkts ELSE << >>
SetQ(q, sd, p, pkts) == {x \in q : ~(x.seid = sd /\ x.pdr = p)} \cup {[seid |-> sd, pdr |-> p, pkts |-> pkts]}
PayloadHex(k) == k       \* payloads are identified by the hex string the executor logs

EstRsp(L) == SelectSeq(L.out, LAMBDA o : o.mt = MT_ESTRSP /\ o.to = L.e.peer /\ o.seq = L.e.seq)
Srrs(L) == SelectSeq(L.out, LAMBDA o : o.mt = MT_SRREQ)

\* ------------------------------------------------------------------ rule bookkeeping from the IEs of a request
ApplyOps(h, sd, ops) ==
  FoldLeft(LAMBDA acc, o :
    CASE o.kind = "far" /\ o.op = "create" ->
           [acc EXCEPT !.far = {x \in @ : ~(x.seid = sd /\ x.id = o.id)} \cup
                               {[seid |-> sd, id |-> o.id, aa |-> IF o.aa = 0 THEN ACT_FORW ELSE o.aa, teid |-> o.teid, gnb |-> o.gnb]}]
      [] o.kind = "far" /\ o.op = "update" ->
           [acc EXCEPT !.far = {IF x.seid = sd /\ x.id = o.id
                                THEN [x EXCEPT !.aa = IF o.aa > 0 THEN o.aa ELSE @, !.teid = IF o.gnb > 0 THEN o.teid ELSE @, !.gnb = IF o.gnb > 0 THEN o.gnb ELSE @]
                                ELSE x : x \in @}]
      [] o.kind = "far" /\ o.op = "remove" -> [acc EXCEPT !.far = {x \in @ : ~(x.seid = sd /\ x.id = o.id)}]
      [] o.kind = "pdr" /\ o.op = "create" ->
           [acc EXCEPT !.pdr = {x \in @ : ~(x.seid = sd /\ x.id = o.id)} \cup {[seid |-> sd, id |-> o.id, far |-> o.far, qers |-> o.qers]}]
      [] o.kind = "pdr" /\ o.op = "remove" -> [acc EXCEPT !.pdr = {x \in @ : ~(x.seid = sd /\ x.id = o.id)}]
      [] o.kind = "qer" /\ o.op = "create" ->
           [acc EXCEPT !.qer = {x \in @ : ~(x.seid = sd /\ x.id = o.id)} \cup {[seid |-> sd, id |-> o.id, qfi |-> o.qfi]}]
      [] o.kind = "qer" /\ o.op = "remove" -> [acc EXCEPT !.qer = {x \in @ : ~(x.seid = sd /\ x.id = o.id)}]
      [] o.kind = "urr" /\ o.op = "create" ->
           [acc EXCEPT !.urr = {x \in @ : ~(x.seid = sd /\ x.id = o.id)} \cup
                               {[seid |-> sd, id |-> o.id, perio |-> o.perio, period |-> o.period, volum |-> (o.meth >= 0 /\ BitSet(o.meth, 2))]}]
      [] o.kind = "urr" /\ o.op = "remove" -> [acc EXCEPT !.urr = {x \in @ : ~(x.seid = sd /\ x.id = o.id)}]
      [] OTHER -> acc,
    h, ops)
DropSess(h, sds) ==
  [h EXCEPT !.live = {s \in @ : s.seid \notin sds}, !.far = {x \in @ : x.seid \notin sds}, !.pdr = {x \in @ : x.seid \notin sds},
            !.qer = {x \in @ : x.seid \notin sds}, !.urr = {x \in @ : x.seid \notin sds}, !.q = {x \in @ : x.seid \notin sds}]

\* ------------------------------------------------------------------ C13: buffering
\* queue after a burst of packets: appended while there is room, the rest (the newest) dropped
Pushed(pkts, new) == LET room == QCap - Len(pkts) IN
                     pkts \o (IF room <= 0 THEN << >> ELSE IF Len(new) <= room THEN new ELSE SubSeq(new, 1, room))
BurstPayloads(L) == L.pkts       \* the executor logs the payloads of the burst in emission order

VBuf(h, L) ==
  LET e == L.e
      live == e.seid \in LiveSeids(h)
      s == SessOf(h, e.seid)
      nocp == BitSet(e.action, ACT_NOCP)
      ds == Srrs(L)
  IN UNION {
       V(L.gpdu = << >>, "C13:a buffer notification caused a packet to be emitted"),
       IF ~live THEN V(L.out = << >>, "C13:buffer notification for an unknown or ended session was forwarded")
       ELSE IF nocp
       THEN V(Len(ds) = e.n /\ \A i \in DOMAIN ds : ds[i].to = NodePeer(s.node) /\ ds[i].seid = s.cp /\ ds[i].dldr = <<e.pdr>> /\ ds[i].rpts = << >>,
              "C13:downlink data notification not raised towards the owning SMF for the PDR that buffered")
       ELSE V(L.out = << >>, "C13:downlink data notification raised although not requested") }
HBuf(h0, L) ==
  LET e == L.e
      h == [h0 EXCEPT !.seen = @ \cup Rng(BurstPayloads(L))] IN
  IF e.seid \in LiveSeids(h) /\ BitSet(e.action, ACT_BUFF)
  THEN [h EXCEPT !.q = SetQ(@, e.seid, e.pdr, Pushed(QOf(h, e.seid, e.pdr), BurstPayloads(L)))]
  ELSE h

\* a Modification Request whose Update FAR carries an Apply Action: what must come out of the queues
FarOf(h, sd, f) == {x \in h.far : x.seid = sd /\ x.id = f}
PdrsOfFar(h, sd, f) == {x \in h.pdr : x.seid = sd /\ x.far = f}
QfiOf(h, sd, p) ==   \* QFI of the PDR's first QER that has one (0: none)
  LET qs == p.qers
      has(i) == \E x \in h.qer : x.seid = sd /\ x.id = qs[i] /\ x.qfi # 0
  IN IF \E i \in DOMAIN qs : has(i)
     THEN (CHOOSE x \in h.qer : x.seid = sd /\ x.id = qs[CHOOSE i \in DOMAIN qs : has(i) /\ \A j \in DOMAIN qs : has(j) => i <= j]).qfi
     ELSE 0
UpdAA(e) == SelectSeq(e.ops, LAMBDA o : o.kind = "far" /\ o.op = "update" /\ o.aa > 0)

VRelease(h, L) ==
  LET e == L.e
      sd == e.seid
      us == UpdAA(e)
      o == us[1]
      fs == FarOf(h, sd, o.id)
      f == CHOOSE x \in fs : TRUE
      buffering == fs # {} /\ BitSet(f.aa, ACT_BUFF)
      pdrs == PdrsOfFar(h, sd, o.id)
      \* after the request's own IEs the FAR may carry new tunnel parameters: either set is accepted, consistently
      f2 == IF FarOf(ApplyOps(h, sd, e.ops), sd, o.id) = {} THEN f ELSE CHOOSE x \in FarOf(ApplyOps(h, sd, e.ops), sd, o.id) : TRUE
      \* which PDR's queue holds a payload (payloads are unique per burst): computed once per PDR
      held == [p \in {x.id : x \in pdrs} |-> Rng(QOf(h, sd, p))]
      owner(g) == {p \in DOMAIN held : g.payload \in held[p]}
      emitted == [i \in DOMAIN L.gpdu |-> [g |-> L.gpdu[i], own |-> owner(L.gpdu[i])]]
      fromPdr(p) == SelectSeq(emitted, LAMBDA x : p \in x.own)
      okTunnel(g, ff, p) == g.bad = "" /\ g.to = GnbName(ff.gnb) /\ g.teid = ff.teid
                            /\ (IF QfiOf(h, sd, p) = 0 THEN ~g.ext ELSE g.ext /\ g.qfi = QfiOf(h, sd, p))
      okAll(ff) == \A p \in pdrs : LET q == QfiOf(h, sd, p) IN
                     \A x \in Rng(fromPdr(p.id)) : x.g.bad = "" /\ x.g.to = GnbName(ff.gnb) /\ x.g.teid = ff.teid
                                                    /\ (IF q = 0 THEN ~x.g.ext ELSE x.g.ext /\ x.g.qfi = q)
  IN IF Len(us) # 1 THEN {}                      \* several apply-action updates in one request: not judged
     ELSE IF ~buffering \/ (~BitSet(o.aa, ACT_DROP) /\ ~BitSet(o.aa, ACT_FORW))
     THEN V(L.gpdu = << >>, "C13:packets emitted although the FAR did not switch from buffering to forwarding")
     ELSE IF BitSet(o.aa, ACT_DROP)
     THEN V(L.gpdu = << >>, "C13:buffered packets emitted although the FAR switched to drop")
     ELSE UNION {
       V(\A p \in pdrs : [i \in DOMAIN fromPdr(p.id) |-> fromPdr(p.id)[i].g.payload] = QOf(h, sd, p.id),
         "C13:released packets are not the buffered packets of the PDR, each once, in arrival order"),
       V(\A x \in Rng(emitted) : x.own # {},
         "C13:a packet was emitted that was not buffered under this session and a PDR of this FAR"),
       V(f.gnb = 0 \/ okAll(f) \/ okAll(f2),
         "C13:released packets not sent to the FAR's peer with its TEID and the flow's QFI") }
HRelease(h, L) ==
  LET e == L.e
      sd == e.seid
      us == UpdAA(e)
      o == us[1]
      fs == FarOf(h, sd, o.id)
      f == CHOOSE x \in fs : TRUE
  IN IF Len(us) = 1 /\ fs # {} /\ BitSet(f.aa, ACT_BUFF) /\ (BitSet(o.aa, ACT_DROP) \/ BitSet(o.aa, ACT_FORW))
     THEN [h EXCEPT !.q = {IF x.seid = sd /\ \E p \in PdrsOfFar(h, sd, o.id) : p.id = x.pdr THEN [x EXCEPT !.pkts = << >>] ELSE x : x \in @}]
     ELSE h

\* the queue lengths the implementation holds (loop-owned snapshot) are the ghost's
VQueues(h2, L) ==
  V(\A x \in h2.q : x.seid \in LiveSeids(h2) =>
        (IF \E y \in Rng(L.queues) : y.seid = x.seid /\ y.pdr = x.pdr
         THEN (CHOOSE y \in Rng(L.queues) : y.seid = x.seid /\ y.pdr = x.pdr).len = Len(x.pkts) ELSE Len(x.pkts) = 0),
    "C13:number of packets held for a PDR differs from the packets buffered (capacity / displacement / leak)")

\* ------------------------------------------------------------------ C15: periodic tick
OidStr(sd, u) == sd \o "/" \o ToString(u)
VTick(h, L) ==
  LET e == L.e
      reg == {x \in h.urr : x.perio /\ x.period = e.period}
      want == {OidStr(x.seid, x.id) : x \in reg}
      got == FlattenSeq(L.mq)
      srrs == Srrs(L)
      seids == {x.seid : x \in reg}
  IN UNION {
       V(Rng(got) = want /\ Len(got) = Cardinality(want), "C15:URRs queried on the tick differ from the URRs registered with that period"),
       \* C03, last sentence: a URR created with the periodic trigger IS registered for periodic querying (until it is removed)
       V(want \subseteq Rng(got), "C03:a URR with the periodic trigger is not (or no longer) registered for periodic querying with its period"),
       V(\A sd \in seids : Len(SelectSeq(srrs, LAMBDA o : o.seid = SessOf(h, sd).cp /\ o.to = NodePeer(SessOf(h, sd).node))) = 1,
         "C15:periodic reports of a session not delivered in exactly one report to its SMF"),
       V(Len(srrs) = Cardinality(seids), "C15:number of periodic session reports differs from the number of sessions with registered URRs"),
       V(\A o \in Rng(srrs) : \A r \in Rng(o.rpts) : BitSet(r.trig, TRIG_PERIO), "C15:periodic report not marked periodic"),
       \* (existence of the session's report is the clause above; no CHOOSE here: a missing report must be a verdict, not an evaluation error)
       V(\A sd \in seids : \A o \in Rng(srrs) : (o.seid = SessOf(h, sd).cp /\ o.to = NodePeer(SessOf(h, sd).node)) =>
            ({r.urr : r \in Rng(o.rpts)} = {x.id : x \in {y \in reg : y.seid = sd}} /\ Len(o.rpts) = Cardinality({y \in reg : y.seid = sd})),
         "C15:a registered URR's periodic report is missing or duplicated"),
       \* every periodic report reaches the session it was measured for, with the measured volume
       V(\A sd \in seids : \A o \in Rng(srrs) : (o.seid = SessOf(h, sd).cp /\ o.to = NodePeer(SessOf(h, sd).node)) =>
            \A r \in Rng(o.rpts) : \E k \in Rng(L.mqr) : k.seid = sd /\ k.urr = r.urr /\ k.tv = r.vals.tv,
         "C15:a periodic report was delivered to another session than the one it was measured for, or with other values") }
\* one ticker per period that has a registered URR
VTickers(h2, L) ==
  UNION {
    V(L.tickers = Cardinality({x.period : x \in {y \in h2.urr : y.perio}}), "C15:number of period tickers differs from the number of periods with registered URRs"),
    \* fewer timers than periods with registered URRs: some registered URR is no longer queried periodically (C03, last sentence)
    V(L.tickers >= Cardinality({x.period : x \in {y \in h2.urr : y.perio}}),
      "C03:a period that still has registered URRs has lost its timer: they are no longer queried periodically") }

\* ------------------------------------------------------------------ C10: usage reports multicast by the kernel
TrigOfCause(c) == Encode(UsageReportTriggerTbl, CauseMap(c))
NoTimes(trig) == Decode(UsageReportTriggerTbl, trig) \cap {"START", "STOPT", "MACAR"} # {}
VKrep(h, L) ==
  LET e == L.e
      known(k) == k.seid \in LiveSeids(h) /\ \E x \in h.urr : x.seid = k.seid /\ x.id = k.urr
      ks == SelectSeq(e.kreps, known)
      seids == {k.seid : k \in Rng(SelectSeq(e.kreps, LAMBDA k : k.seid \in LiveSeids(h)))}
      srrs == Srrs(L)
      all == FlattenSeq([i \in DOMAIN srrs |-> [j \in DOMAIN srrs[i].rpts |-> [r |-> srrs[i].rpts[j], o |-> srrs[i]]]])
  IN UNION {
       V(Len(all) = Len(ks), "C10:number of usage reports forwarded differs from the reports the kernel produced for known sessions and URRs"),
       V(\A i \in DOMAIN ks :
            \E x \in Rng(all) :
               /\ x.r.urr = ks[i].urr
               \* TS 29.244 7.5.8.3: Start / End Time are present except for the triggers START, STOPT and MACAR
               /\ IF NoTimes(TrigOfCause(ks[i].trig)) THEN x.r.vals.st \in {"-", ks[i].vals.st} /\ x.r.vals.et \in {"-", ks[i].vals.et}
                  ELSE x.r.vals.st = ks[i].vals.st /\ x.r.vals.et = ks[i].vals.et
               /\ x.o.seid = SessOf(h, ks[i].seid).cp /\ x.o.to = NodePeer(SessOf(h, ks[i].seid).node)
               /\ x.r.trig = TrigOfCause(ks[i].trig)
               /\ LET u == CHOOSE u \in h.urr : u.seid = ks[i].seid /\ u.id = ks[i].urr IN
                  IF u.volum THEN x.r.vf = 7 /\ x.r.vals.tv = ks[i].vals.tv /\ x.r.vals.uv = ks[i].vals.uv /\ x.r.vals.dv = ks[i].vals.dv
                  ELSE x.r.vf = -1,
         "C10:a usage report multicast by the kernel did not reach the owning SMF with its values and cause intact"),
       V(Len(srrs) <= Cardinality(seids), "C10:more session reports than sessions in the batch"),
       \* C19, last sentence: the cause the data plane delivered maps to the usage-report trigger of the same name and to no other
       \* (the forwarded report is identified by its measured volume, else by its start time)
       V(\A i \in DOMAIN ks : \A x \in Rng(all) :
            (x.r.urr = ks[i].urr /\ (IF x.r.vals.tv # "-" THEN x.r.vals.tv = ks[i].vals.tv ELSE x.r.vals.st = ks[i].vals.st))
               => x.r.trig = TrigOfCause(ks[i].trig),
         "C19:a reporting-trigger cause delivered by the data plane reached the SMF as another usage-report trigger") }

\* ------------------------------------------------------------------ C01 at the kernel boundary: the rule tables of the (simulated) module
\* The rules a correct UPF holds in the kernel after the step: those named by Create IEs of live sessions and not removed since
\* (no faults are injected at this level, and a Modification Request is carried out IE by IE whatever a single IE returns).
WantRules(h2) == {<<"far", x.seid, x.id>> : x \in h2.far} \cup {<<"pdr", x.seid, x.id>> : x \in h2.pdr}
                 \cup {<<"qer", x.seid, x.id>> : x \in h2.qer} \cup {<<"urr", x.seid, x.id>> : x \in h2.urr}
VKernel(h2, L) ==
  LET K == {<<r.kind, r.seid, r.id>> : r \in Rng(L.krules)}
      want == WantRules(h2)
      mine == {k \in K : k[2] \in LiveSeids(h2)}
  IN UNION {
       V(K = mine, "C01:the kernel holds a rule of a session that has ended or never existed"),
       V(mine \subseteq want, "C01:the kernel holds a rule its session did not request by a Create IE, or has removed"),
       V({k \in want : k[1] \in {"pdr", "far"}} \subseteq K, "C02:a PDR or FAR created by the SMF is missing from the kernel"),
       V({k \in want : k[1] \in {"qer", "urr"}} \subseteq K, "C03:a QER or URR created by the SMF is missing from the kernel") }

\* ------------------------------------------------------------------ lock-step: what the ideal model predicts for a step
\* (UpfL2 attaches the projection of its own step record to every event of a printed path; Trace_L2 compares it with the
\* projection of the recorded step; one model packet stands for PktScale real packets, so bags become sets and counts scale)
POutL2(o) == [to |-> o.to, mt |-> o.mt, seq |-> IF o.mt = MT_SRREQ THEN 0 ELSE o.seq, seid |-> o.seid, cause |-> o.cause,
              fseid |-> o.fseid, rtype |-> o.rtype, dldr |-> o.dldr,
              rpts |-> SetToSeq({[urr |-> r.urr, trig |-> r.trig] : r \in Rng(o.rpts)})]
PGpL2(g) == [to |-> g.to, teid |-> g.teid, ext |-> g.ext, qfi |-> g.qfi]
ProjL2(L) == [out |-> SetToSeq({POutL2(o) : o \in Rng(L.out)}),
              gp |-> SetToSeq({PGpL2(g) : g \in Rng(L.gpdu)}), ngp |-> Len(L.gpdu),
              mq |-> SetToSeq(Rng(FlattenSeq(L.mq))),
              queues |-> SetToSeq({q \in Rng(L.queues) : q.len > 0}), tickers |-> L.tickers,
              krules |-> SetToSeq(Rng(L.krules))]
SameL2(x, L, scale) ==
  /\ {[y EXCEPT !.rpts = Rng(y.rpts)] : y \in Rng(x.out)} = {[y EXCEPT !.rpts = Rng(y.rpts)] : y \in {POutL2(o) : o \in Rng(L.out)}}
  /\ Rng(x.gp) = {PGpL2(g) : g \in Rng(L.gpdu)} /\ Len(L.gpdu) = x.ngp * scale
  /\ Rng(x.mq) = Rng(FlattenSeq(L.mq))
  /\ {[q EXCEPT !.len = @ * scale] : q \in Rng(x.queues)} = {q \in Rng(L.queues) : q.len > 0}
  /\ x.tickers = L.tickers
  /\ Rng(x.krules) = Rng(L.krules)
WhatL2(x, L, scale) ==
  IF {[y EXCEPT !.rpts = Rng(y.rpts)] : y \in Rng(x.out)} # {[y EXCEPT !.rpts = Rng(y.rpts)] : y \in {POutL2(o) : o \in Rng(L.out)}} THEN "datagrams"
  ELSE IF ~(Rng(x.gp) = {PGpL2(g) : g \in Rng(L.gpdu)} /\ Len(L.gpdu) = x.ngp * scale) THEN "re-injected packets"
  ELSE IF Rng(x.mq) # Rng(FlattenSeq(L.mq)) THEN "URRs queried"
  ELSE IF {[q EXCEPT !.len = @ * scale] : q \in Rng(x.queues)} # {q \in Rng(L.queues) : q.len > 0} THEN "buffer queues"
  ELSE IF x.tickers # L.tickers THEN "period tickers"
  ELSE "kernel rule tables"

DiffL2(x, L, scale) ==
  LET w == WhatL2(x, L, scale) IN
  CASE w = "datagrams" -> [model |-> x.out, code |-> SetToSeq({POutL2(o) : o \in Rng(L.out)})]
    [] w = "re-injected packets" -> [model |-> <<x.ngp * scale>> \o x.gp, code |-> <<Len(L.gpdu)>> \o SetToSeq({PGpL2(g) : g \in Rng(L.gpdu)})]
    [] w = "URRs queried" -> [model |-> x.mq, code |-> FlattenSeq(L.mq)]
    [] w = "buffer queues" -> [model |-> x.queues, code |-> L.queues]
    [] w = "period tickers" -> [model |-> <<x.tickers>>, code |-> <<L.tickers>>]
    [] OTHER -> [model |-> x.krules, code |-> L.krules]

\* ------------------------------------------------------------------ verdict and ghost update
SessEnds(h, L) ==
  LET e == L.e IN
  CASE e.t = "del" /\ e.seid \in LiveSeids(h) -> {e.seid}
    [] e.t = "assoc" /\ e.node # "" -> {s.seid : s \in {x \in h.live : x.node = e.node}}
    [] OTHER -> {}
EstOk(h, L) == L.e.t = "est" /\ L.e.node \in h.assoc /\ L.e.cp # "" /\ EstRsp(L) # << >> /\ EstRsp(L)[1].fseid # ""

HNext0(h, L) ==
  LET e == L.e IN
  CASE e.t = "assoc" /\ e.node # "" -> [DropSess(h, SessEnds(h, L)) EXCEPT !.assoc = @ \cup {e.node}]
    [] EstOk(h, L) ->
         LET sd == EstRsp(L)[1].fseid IN
         ApplyOps([DropSess(h, {sd}) EXCEPT !.live = @ \cup {[seid |-> sd, cp |-> e.cp, node |-> e.node]}], sd, e.ops)
    [] e.t = "mod" /\ e.seid \in LiveSeids(h) -> ApplyOps(HRelease(h, L), e.seid, e.ops)
    [] e.t = "del" -> DropSess(h, SessEnds(h, L))
    [] e.t = "kbuf" -> HBuf(h, L)
    [] OTHER -> h

\* ------------------------------------------------------------------ C14 on the wire: every G-PDU seen at a gNB socket
\* (read by an independent decoder that follows the flags: vf2ParseGpdu)
VGpdu(h, L) ==
  LET e == L.e
      sd == e.seid
      rel == e.t = "mod" /\ sd \in LiveSeids(h) /\ Len(UpdAA(e)) = 1
      o == UpdAA(e)[1]
      pdrs == PdrsOfFar(h, sd, o.id)
      flows(g) == {QfiOf(h, sd, p) : p \in {x \in pdrs : g.payload \in Rng(QOf(h, sd, x.id))}}
  IN IF L.gpdu = << >> THEN {} ELSE UNION {
       V(\A g \in Rng(L.gpdu) : g.bad = "", "C14:a re-injected packet is not a well-formed GTPv1-U G-PDU"),
       V(\A g \in Rng(L.gpdu) : g.bad = "" => g.payload \in h.seen,
         "C14:the T-PDU delimited by the header of a re-injected packet is not a packet that was handed up (payload changed / header length)"),
       IF ~rel THEN {} ELSE
       V(\A g \in Rng(L.gpdu) : (g.bad = "" /\ Cardinality(flows(g)) = 1) =>
            LET q == CHOOSE q \in flows(g) : TRUE IN IF q = 0 THEN ~g.ext ELSE g.ext /\ g.qfi = q,
         "C14:PDU Session Container missing, superfluous or carrying another QFI than the flow's") }

VerdictL2x(h, L, h2) ==
  LET e == L.e
  IN IF h.skip \/ e.t = "init" THEN {}
     ELSE IF L.fatal # "" THEN {"C07:the UPF panicked or tried to exit", "C13:the UPF faulted"}
     ELSE UNION {
       CASE e.t = "kbuf" -> VBuf(h, L) \cup
                            \* the apply-action word carries further flags and buffering / notification went wrong: the word was
                            \* not taken flag by flag (C19: "a flag seen by the control plane is the flag the other side set")
                            (IF (e.action \div 16 > 0 \/ BitSet(e.action, ACT_DROP) \/ BitSet(e.action, ACT_FORW)) /\ (VBuf(h, L) # {} \/ VQueues(h2, L) # {})
                             THEN {"C19:buffering or notification did not follow the BUFF / NOCP flags of an apply-action word that carries further flags"} ELSE {})
         [] e.t = "mod" /\ e.seid \in LiveSeids(h) /\ UpdAA(e) # << >> -> VRelease(h, L)
         [] e.t = "tick" -> VTick(h, L)
         [] e.t = "krep" -> VKrep(h, L)
         [] e.t = "stop" -> UNION { V(L.tickers = 0, "C15:closing the periodic server did not release all period timers"),
                                    V(e.tag = "", "C17:goroutines still running after Stop") }
         [] OTHER -> V(L.gpdu = << >>, "C13:packets emitted without a FAR switching to forwarding"),
       IF e.t = "stop" THEN {} ELSE VGpdu(h, L),
       IF e.t = "stop" THEN {} ELSE VQueues(h2, L),
       IF e.t = "stop" THEN {} ELSE VKernel(h2, L),
       IF e.t \in {"est", "mod", "del", "assoc", "tick"} THEN VTickers(h2, L) ELSE {} }

VerdictL2(h, L) == VerdictL2x(h, L, HNext0(h, L))
\* one evaluation of the next ghost per step: returns [v: verdict, h: next ghost]
StepL2(h, L) ==
  LET h2 == IF L.e.t = "init" \/ h.skip THEN h ELSE HNext0(h, L)
      v == IF L.e.t = "init" THEN {} ELSE VerdictL2x(h, L, h2)
  IN [v |-> v, h |-> IF L.e.t = "init" THEN H0 ELSE IF h.skip THEN h ELSE IF v # {} THEN [h EXCEPT !.skip = TRUE] ELSE h2]
=============================================================================
