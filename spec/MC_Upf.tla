------------------------------- MODULE MC_Upf -------------------------------
(***************************************************************************)
(* Exhaustive configurations of the ideal model: TLC enumerates every      *)
(* history of the bounded model, evaluates every monitor of Mon.tla on     *)
(* every step (invariant NoVerdict), and - in the Gen configurations -     *)
(* prints every transition with an input path that reaches it, to be       *)
(* replayed on the real server.                                            *)
(***************************************************************************)
EXTENDS Upf, Json

CONSTANTS SampleMod, SampleKey,  \* Gen: print the edges whose path hashes to SampleKey modulo SampleMod (1 = all)
          EmitAt                 \* > 0 (simulation mode): print only complete walks of that many turns

Step ==
  \/ \E p \in Peers : \E q \in FreshSeq(p) : Heartbeat(p, q)
  \/ \E p \in Peers : \E q \in FreshSeq(p) : \E n \in NodeIds : AssocSetup(p, q, n)
  \/ \E p \in Peers : \E q \in FreshSeq(p) : \E t \in {"assocupd", "assocrel"} : AssocOther(p, q, t)
  \/ \E p \in Peers : \E q \in FreshSeq(p) : \E n \in NodeIds \cup {""} : \E cp \in CpSeids \cup {""} :
        \E ops \in EstOps : \E f \in FaultSets : \E f2 \in Fault2Sets :
           /\ (n = "" \/ cp = "" => ops = <<>> /\ f = {} /\ f2 = {})
           /\ ("simbias" \in Kinds => n \in DOMAIN nodes /\ cp # "")     \* random walks: do not drown in requests that are ignored
           /\ (\A x \in f \cup f2 : x < Len(ops)) /\ f \cap f2 = {}
           /\ Establish(p, q, n, cp, ops, f, f2)
  \/ \E p \in Peers : \E q \in FreshSeq(p) : \E sref \in LiveOrds : \E ops \in ModOps : \E f \in FaultSets : \E f2 \in Fault2Sets :
        /\ (\A x \in f \cup f2 : x < Len(ops) + 1) /\ f \cap f2 = {}
        /\ Modify(p, q, sref, "", "", ops, f, f2)
  \/ \E p \in Peers : \E q \in FreshSeq(p) : \E lit \in SeidLits : \E ops \in {<<>>, <<Op("create", "far", 1)>>} :
        ("simbias" \in Kinds => lit = "9" /\ ops = <<>> /\ p = "p1") /\ Modify(p, q, 0, lit, "", ops, {}, {})
  \/ \E p \in Peers : \E q \in FreshSeq(p) : \E sref \in LiveOrds : \E n \in NodeIds \ DOMAIN nodes :
        "takeover" \in Kinds /\ Modify(p, q, sref, "", n, <<>>, {}, {})
  \/ \E p \in Peers : \E q \in FreshSeq(p) : \E sref \in LiveOrds : \E ops \in {<<>>, <<Op("create", "far", 2), Op("remove", "far", 1)>>} :
        "badnode" \in Kinds /\ Modify(p, q, sref, "", "!bad", ops, {}, {})
  \/ \E p \in Peers : \E q \in FreshSeq(p) : \E sref \in LiveOrds : Delete(p, q, sref, "")
  \/ \E p \in Peers : \E q \in FreshSeq(p) : \E lit \in SeidLits : ("simbias" \in Kinds => lit = "1" /\ p = "p1") /\ Delete(p, q, 0, lit)
  \/ \E k \in 1..turns : "dup" \in Kinds /\ IsReqEv(hist[k]) /\ Retrans(hist[k]) /\ UNCHANGED nseq
  \/ \E sref \in LiveOrds : \E u \in {1, 2} : \E trig \in {2} : Report(sref, "", <<UsarRep(u, trig)>>)
  \/ \E sref \in LiveOrds : "report2" \in Kinds /\ Report(sref, "", <<UsarRep(1, 2), UsarRep(2, 4), UsarRep(1, 256)>>)
  \/ \E sref \in LiveOrds : \E act \in {4, 12} : "dldr" \in Kinds /\ Report(sref, "", <<DldrRep(1, act)>>)
  \/ \E lit \in SeidLits : Report(0, lit, <<UsarRep(1, 2)>>)
  \/ \E x \in tx : \E hs \in {"0", "7"} : Response(x.peer, x.seq, "rptrsp", hs)
  \/ \E x \in tx : \E p \in Peers \ {x.peer} : "wrongpeer" \in Kinds /\ Response(p, x.seq, "rptrsp", "0")
  \/ \E x \in tx : "hbrsp" \in Kinds /\ Response(x.peer, x.seq, "hbrsp", "0")
  \/ \E p \in Peers : "stray" \in Kinds /\ Response(p, 5, "rptrsp", "0")
  \/ \E x \in tx : TxTimeout(x.peer, x.seq)
  \/ \E p \in Peers : "stray" \in Kinds /\ TxTimeout(p, 5)
  \/ \E r \in rx : RxTimeout(r.peer, r.seq)

\* the bound on the number of loop turns is part of the next-state relation (no successors are
\* generated only to be discarded by a state constraint)
Next == turns < MaxTurns /\ Step
Spec == Init /\ [][Next]_vars

Bound == turns <= MaxTurns
\* the monitors accept every step of the ideal model
NoVerdict == bad = {}
\* observation / path variables do not distinguish states
View == <<nodes, slots, free, rx, tx, txseq, dp, tok, nseq, g, bad>>

\* Gen configurations: print every transition once, with an input path that reaches it
Emit == IF EmitAt > 0 THEN (IF turns' = EmitAt THEN PrintT(<<"EDGE", ToJson(hist')>>) ELSE TRUE)
        ELSE IF SampleMod = 1 \/ Len(ToJson(hist')) % SampleMod = SampleKey THEN PrintT(<<"EDGE", ToJson(hist')>>) ELSE TRUE

\* ------------------------------------------------------------------ the allocator of Upf.tla refines SeidAlloc.tla
\* Every step of the ideal model changes (slots, free) by a sequence of SeidAlloc!Del steps (a session ends, a node is
\* re-associated) followed by at most one SeidAlloc!New, or not at all; SeidAlloc's inductive invariant (proved with
\* Apalache for histories of any length) therefore holds of the model, and Trace_Ideal ties slots/free to LocalNode.
Alloc == INSTANCE SeidAlloc WITH N <- MaxSlots, slots <- [i \in DOMAIN slots |-> slots[i].live], free <- free, last <- 0
AllocInv == Alloc!IndInv
\* the released SEIDs of a step are appended to the free list in the order of release; an issue takes the last one
AllocRefines ==
  [][LET L0 == Len(free)  L1 == Len(free')
         ended == {i \in DOMAIN slots : slots[i].live /\ (i \notin DOMAIN slots' \/ ~slots'[i].live \/ slots'[i].ord # slots[i].ord)}
         begun == {i \in DOMAIN slots' : slots'[i].live /\ (i \notin DOMAIN slots \/ ~slots[i].live \/ slots[i].ord # slots'[i].ord)}
     IN /\ Cardinality(begun) <= 1
        /\ Len(slots') >= Len(slots)
        /\ IF begun = {} THEN /\ L1 = L0 + Cardinality(ended) /\ SubSeq(free', 1, L0) = free
                               /\ {free'[k] : k \in L0 + 1 .. L1} = ended
           ELSE LET b == CHOOSE i \in begun : TRUE
                    mid == free \o SetToSeq(ended)          \* as a set: the list after the releases of the step
                IN /\ IF L0 + Cardinality(ended) > 0 THEN L1 = L0 + Cardinality(ended) - 1 ELSE L1 = 0 /\ b = Len(slots) + 1
                   /\ b \notin {free'[k] : k \in 1..L1}
                   /\ {free'[k] : k \in 1..L1} \cup (IF L0 + Cardinality(ended) > 0 THEN {b} ELSE {}) = {mid[k] : k \in DOMAIN mid}
       ]_<<slots, free>>

\* ------------------------------------------------------------------ constant menus
O(o, k, i) == Op(o, k, i)
Urr(o, i, meth, minfo) == [Op(o, "urr", i) EXCEPT !.meth = meth, !.minfo = minfo]
Pdr(o, i, urrs, ueip) == [Op(o, "pdr", i) EXCEPT !.urrs = urrs, !.hasurrs = urrs # <<>>, !.ueip = ueip, !.far = 1]

\* life-cycle family: simple rules, URRs and PDRs with colliding ids
LcEstOps == { <<>>, <<O("create", "far", 1)>>, <<O("create", "far", 1), Urr("create", 1, 2, -1)>>,
              <<Urr("create", 1, 2, -1), Pdr("create", 1, <<1>>, TRUE)>>, <<O("create", "far", 1), O("create", "far", 1)>> }
LcModOps == { <<>>, <<O("create", "far", 1)>>, <<O("create", "far", 2)>>, <<O("update", "far", 1)>>, <<O("remove", "far", 1)>>,
              <<O("remove", "far", 1), O("remove", "far", 1)>>, <<O("remove", "far", 2)>>,
              <<Urr("create", 1, 2, -1)>>, <<O("remove", "urr", 1)>>, <<O("query", "urr", 1)>>, <<O("query", "urr", 2)>>,
              <<Pdr("create", 1, <<1>>, FALSE)>>, <<O("remove", "pdr", 1)>>, <<O("update", "pdr", 1)>>,
              <<O("create", "far", 1), O("update", "far", 1)>> }

\* usage family: one or two URRs, two PDRs, every URR list
UsEstOps == { <<>>, <<Urr("create", 1, 3, 16)>>, <<Urr("create", 1, 2, -1), Pdr("create", 1, <<1>>, FALSE)>>,
              <<Pdr("create", 1, <<1>>, FALSE)>> }
UsModOps == { <<Urr("create", 1, 2, -1)>>, <<Urr("create", 2, 1, -1)>>, <<O("remove", "urr", 1)>>, <<O("remove", "urr", 2)>>,
              <<O("query", "urr", 1)>>, <<O("query", "urr", 1), O("query", "urr", 1)>>, <<Urr("update", 1, 3, 16)>>,
              <<Pdr("create", 1, <<1>>, FALSE)>>, <<Pdr("create", 2, <<1, 2>>, FALSE)>>, <<Pdr("create", 2, <<1>>, FALSE)>>,
              <<Pdr("update", 1, <<2>>, FALSE)>>, <<Pdr("update", 1, <<1>>, FALSE)>>, <<Pdr("update", 2, <<2>>, FALSE)>>,
              <<Pdr("update", 1, <<1, 2>>, FALSE)>>,
              <<O("remove", "pdr", 1)>>, <<O("remove", "pdr", 2)>>, <<O("remove", "urr", 1), O("remove", "pdr", 1)>>,
              <<Pdr("update", 1, <<2>>, FALSE), O("query", "urr", 1)>> }

RtEstOps == { <<>>, <<O("create", "far", 1)>> }
RtModOps == { <<>>, <<O("create", "far", 1)>>, <<O("remove", "far", 1)>> }
=============================================================================
