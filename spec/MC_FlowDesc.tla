---------------------------- MODULE MC_FlowDesc ----------------------------
(* Enumerates abstract rules family by family (each family varies one or two dimensions of the
   grammar), checks the sanity of the reference on each and prints it as a test vector. *)
EXTENDS FlowDesc, Json
CONSTANT F
VARIABLE x
Ips == {<<10, 60, 0, 1>>, <<192, 168, 255, 254>>, <<255, 255, 255, 255>>, <<1, 2, 3, 4>>}
AnyA == [k |-> "any", ip |-> <<0, 0, 0, 0>>, n |-> 0]
AsgA == [k |-> "assigned", ip |-> <<0, 0, 0, 0>>, n |-> 0]
Host(ip) == [k |-> "host", ip |-> ip, n |-> 32]
Cidr(ip, n) == [k |-> "cidr", ip |-> ip, n |-> n]
Addrs == {AnyA, AsgA} \cup {Host(ip) : ip \in Ips} \cup {Cidr(ip, n) : ip \in Ips, n \in 0..32}
P(lo, hi, single) == [lo |-> lo, hi |-> hi, single |-> single]
Items == {P(0, 0, TRUE), P(1, 1, TRUE), P(80, 80, TRUE), P(65535, 65535, TRUE), P(0, 65535, FALSE), P(80, 90, FALSE), P(1000, 2000, FALSE)}
Lists == {<<>>} \cup {<<a>> : a \in Items} \cup {<<a, b>> : a \in Items, b \in Items} \cup {<<a, b, c>> : a \in Items, b \in Items, c \in Items}
R(dir, proto, src, sp, dst, dp) == [dir |-> dir, proto |-> proto, src |-> src, sports |-> sp, dst |-> dst, dports |-> dp]
Dom ==
  CASE F = "proto" -> {R(d, p, AnyA, <<>>, AsgA, <<>>) : d \in {"in", "out"}, p \in -1..255}
    [] F = "src"   -> {R("out", 17, a, <<>>, b, <<>>) : a \in Addrs, b \in {AnyA, Cidr(<<10, 60, 0, 0>>, 24)}}
    [] F = "dst"   -> {R("in", 6, b, <<>>, a, <<>>) : a \in Addrs, b \in {AsgA, Host(<<8, 8, 8, 8>>)}}
    [] F = "sport" -> {R("out", 6, AnyA, l, AsgA, m) : l \in Lists, m \in {<<>>, <<P(443, 443, TRUE)>>}}
    [] F = "dport" -> {R("out", -1, Cidr(<<10, 60, 0, 0>>, 16), m, Host(<<10, 0, 0, 1>>), l) : l \in Lists, m \in {<<>>, <<P(53, 53, TRUE), P(5000, 6000, FALSE)>>}}
Init == x \in Dom /\ PrintT(<<"VEC", ToJson(x)>>)
Next == FALSE /\ x' = x
Spec == Init /\ [][Next]_x
RefSane == /\ NetSane(x.src) /\ NetSane(x.dst)
           /\ \A n \in 0..32 : MaskSane(n)
           /\ Packed(x, TRUE).src = Denote(x).dst /\ Packed(x, TRUE).sports = Denote(x).dports /\ Packed(x, FALSE) = Denote(x)
=============================================================================
