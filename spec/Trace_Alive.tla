----------------------------- MODULE Trace_Alive -----------------------------
(***************************************************************************)
(* Trace validation for C07: after any sequence of malformed / mutated     *)
(* datagrams the UPF has not faulted, still answers a Heartbeat Request,   *)
(* and a session that none of the offending datagrams addressed (by header *)
(* SEID or by node id) still accepts a Modification Request.               *)
(* The lines are those of the L1 or L2 executor; probes are tagged by the  *)
(* generator ("probe-hb", "probe-mod:<node of the bystander>").            *)
(***************************************************************************)
EXTENDS Integers, Sequences, FiniteSets, TLC, Json, IOUtils
Trace == ndJsonDeserialize(IOEnv.VERIF_TRACE)
VARIABLES l, st, viol
V(ok, tag) == IF ok THEN {} ELSE {tag}
Rng(s) == {s[i] : i \in DOMAIN s}
S0 == [seids |-> {}, nodes |-> {}, skip |-> FALSE]
IsProbeMod(e) == e.t = "mod" /\ Len(e.tag) > 10 /\ SubSeq(e.tag, 1, 10) = "probe-mod:"
ProbeNode(e) == SubSeq(e.tag, 11, Len(e.tag))
Judge(s, L) ==
  LET e == L.e IN
  IF s.skip \/ e.t \in {"init", "stop"} THEN {}
  ELSE IF L.fatal # "" THEN {"C07:the UPF panicked or tried to exit on a datagram"}
  ELSE IF e.tag = "probe-hb"
  THEN V(\E o \in Rng(L.out) : o.mt = 2 /\ o.to = e.peer /\ o.seq = e.seq, "C07:Heartbeat Request not answered after malformed input")
  ELSE IF IsProbeMod(e) /\ e.seid \notin s.seids /\ ProbeNode(e) \notin s.nodes /\ "?" \notin s.nodes
  THEN V(\E o \in Rng(L.out) : o.mt = 53 /\ o.to = e.peer /\ o.seq = e.seq /\ o.cause = 1,
         "C07:a session not addressed by the offending datagrams is no longer intact")
  ELSE {}
Next1(s, L, bad) ==
  LET e == L.e IN
  IF e.t = "init" THEN S0
  ELSE IF bad THEN [s EXCEPT !.skip = TRUE]
  ELSE IF e.t = "raw" THEN [s EXCEPT !.seids = @ \cup {e.seid}, !.nodes = @ \cup (IF e.node = "" THEN {} ELSE {e.node})]
  ELSE s
Init == l = 1 /\ st = S0 /\ viol = <<>>
Step == /\ l <= Len(Trace)
        /\ LET L == Trace[l]
               v == Judge(st, L)
           IN /\ st' = Next1(st, L, v # {})
              /\ viol' = IF v = {} THEN viol ELSE Append(viol, [tr |-> L.tr, i |-> L.i, tags |-> v])
        /\ l' = l + 1
Finish == /\ l = Len(Trace) + 1
          /\ JsonSerialize(IOEnv.VERIF_VERDICT, [lines |-> Len(Trace), viol |-> viol])
          /\ l' = l + 1 /\ UNCHANGED <<st, viol>>
TraceSpec == Init /\ [][Step \/ Finish]_<<l, st, viol>>
TraceAccepted == TLCGet("stats").diameter = Len(Trace) + 2
=============================================================================
