-------------------------------- MODULE Upf --------------------------------
(***************************************************************************)
(* Ideal model of the PFCP control side of go-upf (package internal/pfcp)  *)
(* against a model data plane.  Structured like the implementation:        *)
(*                                                                         *)
(*   one action  = one turn of the event loop in PfcpServer.main           *)
(*                 (one datagram, one report notification, one time-out)   *)
(*   Modify      = a fold over the IE groups in the handler's order        *)
(*                 (Create FAR,QER,URR,BAR,PDR; Remove ...; Update ...;    *)
(*                  Query URR), every element being one Sess.* method      *)
(*   slots/free  = LocalNode.sess / LocalNode.free                         *)
(*   nodes       = PfcpServer.rnodes (RemoteNode.addr, RemoteNode.sess)    *)
(*   rx, tx      = PfcpServer.rxTrans / txTrans, txseq = PfcpServer.txSeq  *)
(*   dp          = the rules held by the data plane (environment)          *)
(*                                                                         *)
(* Every step produces the record L (event, data-plane calls, datagrams,   *)
(* snapshot) in the very format the L1 executor logs for the real server,  *)
(* so that the monitors of Mon.tla judge model steps and recorded steps    *)
(* alike, and the event part of L (collected in hist) can be replayed on   *)
(* the real server.                                                        *)
(***************************************************************************)
EXTENDS Mon

CONSTANTS Peers,      \* peers that send datagrams, e.g. {"p1","p2"}
          NodeIds,    \* node ids used in Association Setup / Establishment, e.g. {"n1","n2"}
          CpSeids,    \* control-plane SEIDs the peers choose
          EstOps,     \* set of op sequences usable in an Establishment Request
          ModOps,     \* set of op sequences usable in a Modification Request
          FaultSets,  \* set of sets of call ordinals that fail in one step
          Fault2Sets, \* set of sets of ordinals of create calls that fail AFTER having installed the rule
          SeidLits,   \* literal header SEIDs that address no session ("0", "99", ...)
          Kinds,      \* event kinds enabled in this configuration
          MaxSlots,   \* bound on the session table
          MaxTurns,   \* bound on the number of loop turns
          MaxRt,      \* configured maximum number of retransmissions
          TxSeq0,     \* initial value of the request counter
          SeqNos      \* sequence numbers the peers use ({} = a fresh one per request)

VARIABLES nodes, slots, free, rx, tx, txseq, dp, tok, rts,   \* the system + environment
          nseq,                                              \* per-peer request counter of the simulated SMFs
          L, g, bad, hist, turns                             \* observation, ghost, verdict, input path

sysvars == <<nodes, slots, free, rx, tx, txseq, dp, tok, rts, nseq>>
vars == <<nodes, slots, free, rx, tx, txseq, dp, tok, rts, nseq, L, g, bad, hist, turns>>

\* ------------------------------------------------------------------ records
NoSess == [live |-> FALSE, cp |-> "", node |-> "", ids |-> {}, prefs |-> {}, urrs |-> {}, ord |-> 0]
SeidStr(i) == ToString(i)
NoVals == [tv |-> "", uv |-> "", dv |-> "", tp |-> "", up |-> "", dp |-> "", st |-> "", et |-> "", du |-> ""]
ValsOfTok(k) == [tv |-> "tv" \o ToString(k), uv |-> "uv" \o ToString(k), dv |-> "dv" \o ToString(k),
                 tp |-> "tp" \o ToString(k), up |-> "up" \o ToString(k), dp |-> "dp" \o ToString(k),
                 st |-> "st" \o ToString(k), et |-> "et" \o ToString(k), du |-> "du" \o ToString(k)]
Dash == "-"

Ev(t) == [t |-> t, peer |-> "", seq |-> 0, node |-> "", cp |-> "", seid |-> "", sref |-> 0, rref |-> 0,
          ops |-> <<>>, faults |-> <<>>, faults2 |-> <<>>, reports |-> <<>>, tt |-> "", tpeer |-> "", tseq |-> 0, raw |-> "",
          maxrt |-> 0, txseq0 |-> "", tag |-> ""]
Op(o, kind, id) == [op |-> o, kind |-> kind, id |-> id, urrs |-> <<>>, hasurrs |-> FALSE, ueip |-> FALSE,
                    far |-> 0, meth |-> -1, minfo |-> -1]

Dgram(to, mt, seq) == [to |-> to, mt |-> mt, seq |-> seq, hasseid |-> FALSE, seid |-> "", cause |-> 0, node |-> "",
                       fseid |-> "", rts |-> "", created |-> <<>>, rpts |-> <<>>, dldr |-> <<>>, rtype |-> 0,
                       hex |-> "", bad |-> ""]
\* the "bytes" of a datagram: its content (equal content <=> equal bytes)
Seal(d) == [d EXCEPT !.hex = ToString(<<d.to, d.mt, d.seq, d.seid, d.cause, d.fseid, d.rts, d.created, d.rpts, d.dldr>>)]

SetToSortedSeq(S) == SetToSortSeq(S, <)

\* ------------------------------------------------------------------ snapshot (what the verifIdle hook reports)
LiveSlots(sl) == {i \in DOMAIN sl : sl[i].live}
Snap(sl, fr, rxs, txs, tq, nds) ==
  [ rx |-> SetToSeq({[k |-> KeyStr(r.peer, r.seq), rsp |-> r.hex # ""] : r \in rxs}),
    tx |-> SetToSeq({[k |-> KeyStr(t.peer, t.seq), peer |-> t.peer, wire |-> t.seq, n |-> t.n] : t \in txs}),
    txseq |-> ToString(tq),
    free |-> [i \in DOMAIN fr |-> SeidStr(fr[i])],
    live |-> SetToSeq({SeidStr(i) : i \in LiveSlots(sl)}),
    nodes |-> SetToSeq(DOMAIN nds) ]

\* ------------------------------------------------------------------ the model data plane and one Sess.* method
\* cause the model data plane attaches to a report for URR id (as the twin of the L1 executor does: volume threshold,
\* none, time threshold - by id, so that it does not depend on the order in which a session's URRs are walked)
TrigOfUrr(id) == <<2, 0, 4>>[(id % 3) + 1]
\* st = [s: session record, sd: its SEID, dp, calls, usars, tok, faults]
Call(st, o, kind, id) ==
  LET ord == Len(st.calls)
      key == <<SeidStr(st.sd), kind, id>>
      inj == o # "remove" /\ ord \in st.faults
      fresh == o = "create" /\ ~inj /\ key \notin st.dp
      inj2 == fresh /\ ord \in st.faults2      \* the rule is installed but the call reports an error
      ok  == ~inj /\ ~inj2 /\ (IF o = "create" THEN key \notin st.dp ELSE key \in st.dp)
      rep == ok /\ kind = "urr" /\ o \in {"remove", "query"}
      r   == [k |-> "usar", urr |-> id, trig |-> TrigOfUrr(id), pdr |-> 0, action |-> 0, pkt |-> "", tok |-> st.tok + 1,
              vals |-> ValsOfTok(st.tok + 1)]
      c   == [op |-> o, kind |-> kind, seid |-> SeidStr(st.sd), id |-> id, res |-> IF ok THEN "ok" ELSE IF inj2 THEN "err+" ELSE "err",
              reps |-> IF rep THEN <<r>> ELSE <<>>]
  IN [st EXCEPT !.calls = Append(@, c),
                !.dp = IF fresh THEN @ \cup {key} ELSE IF ok /\ o = "remove" THEN @ \ {key} ELSE @,
                !.tok = IF rep THEN @ + 1 ELSE @,
                !.ok = ok, !.rep = IF rep THEN <<r>> ELSE <<>>]

UrrEnt(s, u) == {x \in s.urrs : x.id = u}
SetUrr(s, x) == [s EXCEPT !.urrs = {y \in @ : y.id # x.id} \cup {x}]
\* the UPF's mark is added to the cause the data plane reported
Flag(reps, f) == [i \in DOMAIN reps |-> [reps[i] EXCEPT !.trig = IF BitSet(@, f) THEN @ ELSE @ + f]]
PdrUrrs(s, p) == {r[2] : r \in {x \in s.prefs : x[1] = p}}

\* Sess.diassociateURR
Diassoc(st, u) ==
  IF UrrEnt(st.s, u) = {} THEN st
  ELSE LET x == CHOOSE x \in UrrEnt(st.s, u) : TRUE IN
       IF x.ref = 0 THEN st
       ELSE LET st1 == [st EXCEPT !.s = SetUrr(@, [x EXCEPT !.ref = @ - 1])] IN
            IF x.ref - 1 > 0 THEN st1
            ELSE LET st2 == Call(st1, "query", "urr", u) IN
                 [st2 EXCEPT !.usars = @ \o Flag(st2.rep, TRIG_TERMR)]
DiassocAll(st, us) == FoldLeft(Diassoc, st, SetToSortedSeq(us))

ApplyOp(st, o) ==
  LET s == st.s
      has(kind) == <<kind, o.id>> \in s.ids
  IN
  CASE o.op = "create" /\ o.kind \in {"far", "qer", "bar"} ->
         Call([st EXCEPT !.s.ids = @ \cup {<<o.kind, o.id>>}], "create", o.kind, o.id)
    [] o.op = "create" /\ o.kind = "urr" ->
         LET x == [id |-> o.id, seqn |-> 0, removed |-> FALSE,
                   volum |-> (o.meth >= 0 /\ BitSet(o.meth, 2)), durat |-> (o.meth >= 0 /\ BitSet(o.meth, 1)),
                   mnop |-> (o.minfo >= 0 /\ BitSet(o.minfo, 16)),
                   ref |-> Cardinality({r \in s.prefs : r[2] = o.id})]
         IN Call([st EXCEPT !.s = SetUrr(@, x)], "create", "urr", o.id)
    [] o.op = "create" /\ o.kind = "pdr" ->
         LET new == Rng(o.urrs)
             old == PdrUrrs(s, o.id)
             s1 == [s EXCEPT !.ids = @ \cup {<<"pdr", o.id>>},
                             !.prefs = {r \in @ : r[1] # o.id} \cup {<<o.id, u>> : u \in new},
                             \* Sess.CreatePDR counts a reference for every URR ID child whose URR exists
                             !.urrs = {IF x.id \in new THEN [x EXCEPT !.ref = @ + 1] ELSE x : x \in @}]
         IN Call([st EXCEPT !.s = s1], "create", "pdr", o.id)
    [] o.op = "remove" /\ o.kind \in {"far", "qer", "bar"} ->
         IF ~has(o.kind) THEN st
         ELSE LET st1 == Call(st, "remove", o.kind, o.id) IN
              IF st1.ok THEN [st1 EXCEPT !.s.ids = @ \ {<<o.kind, o.id>>}] ELSE st1
    [] o.op = "remove" /\ o.kind = "urr" ->
         IF UrrEnt(s, o.id) = {} THEN st
         ELSE LET x == CHOOSE x \in UrrEnt(s, o.id) : TRUE
                  st1 == Call([st EXCEPT !.s = SetUrr(@, [x EXCEPT !.removed = TRUE])], "remove", "urr", o.id)
              IN [st1 EXCEPT !.usars = @ \o Flag(st1.rep, TRIG_TERMR)]
    [] o.op = "remove" /\ o.kind = "pdr" ->
         IF ~has("pdr") THEN st
         ELSE LET st1 == Call(st, "remove", "pdr", o.id) IN
              IF ~st1.ok THEN st1
              ELSE LET st2 == DiassocAll(st1, PdrUrrs(s, o.id)) IN
                   [st2 EXCEPT !.s.ids = @ \ {<<"pdr", o.id>>}, !.s.prefs = {r \in @ : r[1] # o.id}]
    [] o.op = "update" /\ o.kind \in {"far", "qer", "bar"} ->
         IF ~has(o.kind) THEN st ELSE Call(st, "update", o.kind, o.id)
    [] o.op = "update" /\ o.kind = "urr" ->
         IF UrrEnt(s, o.id) = {} THEN st
         ELSE LET x == CHOOSE x \in UrrEnt(s, o.id) : TRUE
                  x1 == [x EXCEPT !.volum = IF o.meth >= 0 THEN BitSet(o.meth, 2) ELSE @,
                                  !.durat = IF o.meth >= 0 THEN BitSet(o.meth, 1) ELSE @,
                                  !.mnop  = IF o.minfo >= 0 THEN BitSet(o.minfo, 16) ELSE @]
              IN Call([st EXCEPT !.s = SetUrr(@, x1)], "update", "urr", o.id)
    [] o.op = "update" /\ o.kind = "pdr" ->
         IF ~has("pdr") THEN st
         ELSE LET st1 == Call(st, "update", "pdr", o.id) IN
              IF ~st1.ok THEN st1
              ELSE LET old == PdrUrrs(s, o.id)
                       new == Rng(o.urrs)
                       st2 == DiassocAll(st1, old \ new)
                   IN [st2 EXCEPT !.s.prefs = {r \in @ : r[1] # o.id} \cup {<<o.id, u>> : u \in new},
                                  !.s.urrs = {IF x.id \in (new \ old) THEN [x EXCEPT !.ref = @ + 1] ELSE x : x \in @}]
    [] o.op = "query" /\ o.kind = "urr" ->
         IF UrrEnt(s, o.id) = {} THEN st
         ELSE LET st1 == Call(st, "query", "urr", o.id) IN
              [st1 EXCEPT !.usars = @ \o Flag(st1.rep, TRIG_IMMER)]
    [] OTHER -> st

\* the order in which the handlers walk the IE groups
GroupOrder == << <<"create", "far">>, <<"create", "qer">>, <<"create", "urr">>, <<"create", "bar">>, <<"create", "pdr">>,
                 <<"remove", "far">>, <<"remove", "qer">>, <<"remove", "urr">>, <<"remove", "bar">>, <<"remove", "pdr">>,
                 <<"update", "far">>, <<"update", "qer">>, <<"update", "urr">>, <<"update", "bar">>, <<"update", "pdr">>,
                 <<"query", "urr">> >>
InHandlerOrder(ops) ==
  FlattenSeq([i \in DOMAIN GroupOrder |-> SelectSeq(ops, LAMBDA o : o.op = GroupOrder[i][1] /\ o.kind = GroupOrder[i][2])])
ApplyOps(st, ops) == FoldLeft(ApplyOp, st, InHandlerOrder(ops))

\* Sess.Close: FARs, QERs, URRs, BARs, PDRs (the implementation walks Go maps; the model uses ascending ids)
CloseOps(s) ==
  LET of(kind) == SetToSortedSeq({k[2] : k \in {x \in s.ids : x[1] = kind}})
      rm(kind) == [i \in DOMAIN of(kind) |-> Op("remove", kind, of(kind)[i])]
      urrids == SetToSortedSeq({x.id : x \in s.urrs})
  IN rm("far") \o rm("qer") \o [i \in DOMAIN urrids |-> Op("remove", "urr", urrids[i])] \o rm("bar") \o rm("pdr")
Close(st) == FoldLeft(ApplyOp, st, CloseOps(st.s))

St0(s, sd, dpl, tk, faults) == [s |-> s, sd |-> sd, dp |-> dpl, calls |-> <<>>, usars |-> <<>>, tok |-> tk,
                                faults |-> faults, faults2 |-> {}, ok |-> TRUE, rep |-> <<>>]

\* usage-report IEs of a Modification / Deletion response: UR-SEQN taken when the IE is emitted,
\* bookkeeping of a removed URR dropped after its report
EmitUsage(s, usars, extra, dropRemoved) ==
  FoldLeft(LAMBDA acc, r :
     IF UrrEnt(acc.s, r.urr) = {} THEN acc
     ELSE LET x == CHOOSE x \in UrrEnt(acc.s, r.urr) : TRUE
              ie == [urr |-> r.urr, seqn |-> x.seqn, trig |-> IF extra = 0 \/ BitSet(r.trig, extra) THEN r.trig ELSE r.trig + extra,
                     vf |-> IF x.volum THEN (IF x.mnop THEN 63 ELSE 7) ELSE -1, dur |-> x.durat,
                     vals |-> [tv |-> IF x.volum THEN r.vals.tv ELSE Dash, uv |-> IF x.volum THEN r.vals.uv ELSE Dash,
                               dv |-> IF x.volum THEN r.vals.dv ELSE Dash,
                               tp |-> IF x.volum /\ x.mnop THEN r.vals.tp ELSE Dash, up |-> IF x.volum /\ x.mnop THEN r.vals.up ELSE Dash,
                               dp |-> IF x.volum /\ x.mnop THEN r.vals.dp ELSE Dash,
                               st |-> r.vals.st, et |-> r.vals.et, du |-> IF x.durat THEN r.vals.du ELSE Dash]]
          \* only the Modification / Deletion response loops drop the bookkeeping of a removed URR (serveUSAReport does not)
          IN [s |-> IF x.removed /\ dropRemoved THEN [acc.s EXCEPT !.urrs = @ \ {x}] ELSE SetUrr(acc.s, [x EXCEPT !.seqn = @ + 1]),
              ies |-> Append(acc.ies, ie)],
     [s |-> s, ies |-> <<>>], usars)

\* ------------------------------------------------------------------ the event loop: common parts
SeidOfLit(lit) == lit   \* literal SEIDs are strings already
SlotOfSeid(sl, sdstr) ==    \* LocalNode.Sess: 0 = not found
  IF \E i \in DOMAIN sl : SeidStr(i) = sdstr /\ sl[i].live THEN CHOOSE i \in DOMAIN sl : SeidStr(i) = sdstr ELSE 0

\* a request datagram arrives: rx transaction lookup (retransmission => replay cached response)
IsRetrans(e) == \E r \in rx : r.peer = e.peer /\ r.seq = e.seq
CachedOut(e) == LET r == CHOOSE r \in rx : r.peer = e.peer /\ r.seq = e.seq
                IN IF r.hex = "" THEN <<>> ELSE <<r.d>>

\* every step goes through Commit: record the observation, run the monitors, extend the input path
Commit(e, calls, out, sl, fr, rxs, txs, tq, nds) ==
  LET Lx == [tr |-> "mc", i |-> turns + 1, e |-> e, calls |-> calls, out |-> out,
             snap |-> Snap(sl, fr, rxs, txs, tq, nds), fatal |-> ""]
      v == Verdict(g, Lx)
  IN /\ L' = Lx
     /\ bad' = v
     /\ g' = GNextV(g, Lx, v # {})
     /\ hist' = Append(hist, e)
     /\ turns' = turns + 1

RxAdd(e, out) ==
  LET mine == SelectSeq(out, LAMBDA o : o.mt \in RespTypes)
  IN rx \cup {[peer |-> e.peer, seq |-> e.seq, hex |-> IF mine # <<>> THEN mine[1].hex ELSE "",
               d |-> IF mine # <<>> THEN mine[1] ELSE Dgram("", 0, 0)]}

\* a retransmitted request: no dispatch
Retrans(e) ==
  /\ IsRetrans(e)
  /\ Commit(e, <<>>, CachedOut(e), slots, free, rx, tx, txseq, nodes)
  /\ UNCHANGED <<nodes, slots, free, rx, tx, txseq, dp, tok, rts>>

FreshSeq(p) == IF SeqNos = {} THEN {nseq[p] + 1} ELSE SeqNos
Rts == "rts0"

\* ------------------------------------------------------------------ actions: node level
Heartbeat(p, q) ==
  LET e == [Ev("hb") EXCEPT !.peer = p, !.seq = q]
      d == Seal([Dgram(p, MT_HBRSP, q) EXCEPT !.rts = Rts])
  IN /\ "hb" \in Kinds
     /\ nseq' = [nseq EXCEPT ![p] = IF SeqNos = {} THEN q ELSE @]
     /\ \/ Retrans(e)
        \/ /\ ~IsRetrans(e)
           /\ rx' = RxAdd(e, <<d>>)
           /\ Commit(e, <<>>, <<d>>, slots, free, rx', tx, txseq, nodes)
           /\ UNCHANGED <<nodes, slots, free, tx, txseq, dp, tok, rts>>

\* RemoteNode.Reset: delete every session of the node (ascending SEIDs in the model)
\* the implementation walks a Go map: the order is not prescribed (ascending in the exhaustive configurations,
\* the recorded order in lock-step validation)
ResetNodeO(n, sds) ==
  FoldLeft(LAMBDA acc, i :
        LET st == Close(St0(acc.sl[i], i, acc.dp, acc.tok, {})) IN
        [sl |-> [acc.sl EXCEPT ![i] = NoSess], fr |-> Append(acc.fr, i), dp |-> st.dp, tok |-> st.tok,
         calls |-> acc.calls \o st.calls],
        [sl |-> slots, fr |-> free, dp |-> dp, tok |-> tok, calls |-> <<>>], sds)
ResetNode(n, faults) == ResetNodeO(n, SetToSortedSeq(nodes[n].sess))

AssocSetupO(p, q, n, order) ==
  LET e == [Ev("assoc") EXCEPT !.peer = p, !.seq = q, !.node = n]
      d == Seal([Dgram(p, MT_ASRSP, q) EXCEPT !.cause = CAUSE_OK, !.node = "upf", !.rts = Rts])
  IN /\ "assoc" \in Kinds
     /\ nseq' = [nseq EXCEPT ![p] = IF SeqNos = {} THEN q ELSE @]
     /\ \/ Retrans(e)
        \/ /\ ~IsRetrans(e)
           /\ LET r == IF n \in DOMAIN nodes THEN ResetNodeO(n, order)
                       ELSE [sl |-> slots, fr |-> free, dp |-> dp, tok |-> tok, calls |-> <<>>]
                  nds == [x \in (DOMAIN nodes) \cup {n} |-> IF x = n THEN [addr |-> p, sess |-> {}] ELSE nodes[x]]
              IN /\ slots' = r.sl /\ free' = r.fr /\ dp' = r.dp /\ tok' = r.tok /\ nodes' = nds
                 /\ rx' = RxAdd(e, <<d>>)
                 /\ Commit(e, r.calls, <<d>>, r.sl, r.fr, rx', tx, txseq, nds)
           /\ UNCHANGED <<tx, txseq, rts>>

AssocSetup(p, q, n) == AssocSetupO(p, q, n, IF n \in DOMAIN nodes THEN SetToSortedSeq(nodes[n].sess) ELSE << >>)

\* Association Update / Release Request: received, not supported, not answered
AssocOther(p, q, t) ==
  LET e == [Ev(t) EXCEPT !.peer = p, !.seq = q, !.node = "n1"]
  IN /\ t \in Kinds
     /\ nseq' = [nseq EXCEPT ![p] = IF SeqNos = {} THEN q ELSE @]
     /\ \/ Retrans(e)
        \/ /\ ~IsRetrans(e)
           /\ rx' = RxAdd(e, <<>>)
           /\ Commit(e, <<>>, <<>>, slots, free, rx', tx, txseq, nodes)
           /\ UNCHANGED <<nodes, slots, free, tx, txseq, dp, tok, rts>>

\* ------------------------------------------------------------------ actions: session level
NewOrd == Cardinality({i \in 1..turns : hist[i].t = "est" /\ hist[i].tag = "accepted"}) + 1

Establish(p, q, n, cp, ops, faults, faults2) ==
  LET accepted == n \in DOMAIN nodes /\ cp # ""
      e0 == [Ev("est") EXCEPT !.peer = p, !.seq = q, !.node = n, !.cp = cp, !.ops = ops, !.faults = SetToSortedSeq(faults),
                              !.faults2 = SetToSortedSeq(faults2)]
      e == [e0 EXCEPT !.tag = IF accepted /\ ~IsRetrans(e0) THEN "accepted" ELSE ""]
  IN /\ "est" \in Kinds
     /\ nseq' = [nseq EXCEPT ![p] = IF SeqNos = {} THEN q ELSE @]
     /\ \/ Retrans(e)
        \/ /\ ~IsRetrans(e) /\ ~accepted
           /\ rx' = RxAdd(e, <<>>)
           /\ Commit(e, <<>>, <<>>, slots, free, rx', tx, txseq, nodes)
           /\ UNCHANGED <<nodes, slots, free, tx, txseq, dp, tok, rts>>
        \/ /\ ~IsRetrans(e) /\ accepted
           /\ (free # <<>> \/ Len(slots) < MaxSlots)
           /\ LET sd == IF free # <<>> THEN free[Len(free)] ELSE Len(slots) + 1     \* LocalNode.NewSess
                  fr == IF free # <<>> THEN SubSeq(free, 1, Len(free) - 1) ELSE free
                  s0 == [NoSess EXCEPT !.live = TRUE, !.cp = cp, !.node = n, !.ord = NewOrd]
                  st == ApplyOps([St0(s0, sd, dp, tok, faults) EXCEPT !.faults2 = faults2], ops)
                  sl == IF sd > Len(slots) THEN Append(slots, st.s) ELSE [slots EXCEPT ![sd] = st.s]
                  nds == [nodes EXCEPT ![n].sess = @ \cup {sd}]
                  created == SelectSeq(ops, LAMBDA o : o.op = "create" /\ o.kind = "pdr" /\ o.ueip)
                  d == Seal([Dgram(p, MT_ESTRSP, q) EXCEPT !.hasseid = TRUE, !.seid = cp, !.cause = CAUSE_OK, !.node = "upf",
                                                          !.fseid = SeidStr(sd),
                                                          !.created = [i \in DOMAIN created |-> created[i].id]])
              IN /\ slots' = sl /\ free' = fr /\ dp' = st.dp /\ tok' = st.tok /\ nodes' = nds
                 /\ rx' = RxAdd(e, <<d>>)
                 /\ Commit(e, st.calls, <<d>>, sl, fr, rx', tx, txseq, nds)
           /\ UNCHANGED <<tx, txseq, rts>>

\* header SEID of a session-level request: a live session (by establishment ordinal) or a literal
HdrSeid(sref, lit) == IF sref > 0 THEN (IF \E i \in DOMAIN slots : slots[i].live /\ slots[i].ord = sref
                                        THEN SeidStr(CHOOSE i \in DOMAIN slots : slots[i].live /\ slots[i].ord = sref)
                                        ELSE "none")
                      ELSE lit

NotFound(e, mt) ==
  LET d == Seal([Dgram(e.peer, mt, e.seq) EXCEPT !.hasseid = TRUE, !.seid = "0", !.cause = CAUSE_NOSESS])
  IN /\ rx' = RxAdd(e, <<d>>)
     /\ Commit(e, <<>>, <<d>>, slots, free, rx', tx, txseq, nodes)
     /\ UNCHANGED <<nodes, slots, free, tx, txseq, dp, tok, rts>>

Modify(p, q, sref, lit, newnode, ops, faults, faults2) ==
  LET hs == HdrSeid(sref, lit)
      e == [Ev("mod") EXCEPT !.peer = p, !.seq = q, !.seid = hs, !.sref = sref, !.node = newnode, !.ops = ops,
                             !.faults = SetToSortedSeq(faults), !.faults2 = SetToSortedSeq(faults2)]
      i == SlotOfSeid(slots, hs)
  IN /\ "mod" \in Kinds
     /\ hs # "none"
     /\ nseq' = [nseq EXCEPT ![p] = IF SeqNos = {} THEN q ELSE @]
     /\ \/ Retrans(e)
        \/ ~IsRetrans(e) /\ i = 0 /\ NotFound(e, MT_MODRSP)
        \* a Node ID IE that cannot be decoded: the handler returns before any IE is carried out, and without a response
        \/ /\ ~IsRetrans(e) /\ i # 0 /\ newnode = "!bad"
           /\ rx' = RxAdd(e, <<>>)
           /\ Commit(e, <<>>, <<>>, slots, free, rx', tx, txseq, nodes)
           /\ UNCHANGED <<nodes, slots, free, tx, txseq, dp, tok, rts>>
        \/ /\ ~IsRetrans(e) /\ i # 0 /\ newnode # "!bad"
           /\ LET s == slots[i]
                  \* PfcpServer.UpdateNodeID: the whole node object is re-keyed
                  nds == IF newnode = "" \/ newnode = s.node THEN nodes
                         ELSE [x \in ((DOMAIN nodes) \ {s.node}) \cup {newnode} |-> IF x = newnode THEN nodes[s.node] ELSE nodes[x]]
                  sl0 == IF newnode = "" THEN slots
                         ELSE [j \in DOMAIN slots |-> IF slots[j].live /\ slots[j].node = s.node THEN [slots[j] EXCEPT !.node = newnode] ELSE slots[j]]
                  st == ApplyOps([St0(sl0[i], i, dp, tok, faults) EXCEPT !.faults2 = faults2], ops)
                  em == EmitUsage(st.s, st.usars, 0, TRUE)
                  d == Seal([Dgram(p, MT_MODRSP, q) EXCEPT !.hasseid = TRUE, !.seid = s.cp, !.cause = CAUSE_OK, !.rpts = em.ies])
                  sl == [sl0 EXCEPT ![i] = em.s]
              IN /\ (newnode # "" => newnode \notin DOMAIN nodes)     \* take-over onto an associated id: outside the model
                 /\ slots' = sl /\ dp' = st.dp /\ tok' = st.tok /\ nodes' = nds
                 /\ rx' = RxAdd(e, <<d>>)
                 /\ Commit(e, st.calls, <<d>>, sl, free, rx', tx, txseq, nds)
           /\ UNCHANGED <<free, tx, txseq, rts>>

DeleteSlot(i, faults) ==
  LET st == Close(St0(slots[i], i, dp, tok, faults)) IN
  [st |-> st, sl |-> [slots EXCEPT ![i] = NoSess], fr |-> Append(free, i),
   nds |-> [n \in DOMAIN nodes |-> [nodes[n] EXCEPT !.sess = @ \ {i}]]]

Delete(p, q, sref, lit) ==
  LET hs == HdrSeid(sref, lit)
      e == [Ev("del") EXCEPT !.peer = p, !.seq = q, !.seid = hs, !.sref = sref]
      i == SlotOfSeid(slots, hs)
  IN /\ "del" \in Kinds
     /\ hs # "none"
     /\ nseq' = [nseq EXCEPT ![p] = IF SeqNos = {} THEN q ELSE @]
     /\ \/ Retrans(e)
        \/ ~IsRetrans(e) /\ i = 0 /\ NotFound(e, MT_DELRSP)
        \/ /\ ~IsRetrans(e) /\ i # 0
           /\ LET r == DeleteSlot(i, {})
                  em == EmitUsage(r.st.s, r.st.usars, TRIG_TERMR, TRUE)
                  d == Seal([Dgram(p, MT_DELRSP, q) EXCEPT !.hasseid = TRUE, !.seid = slots[i].cp, !.cause = CAUSE_OK, !.rpts = em.ies])
              IN /\ slots' = r.sl /\ free' = r.fr /\ dp' = r.st.dp /\ tok' = r.st.tok /\ nodes' = r.nds
                 /\ rx' = RxAdd(e, <<d>>)
                 /\ Commit(e, r.st.calls, <<d>>, r.sl, r.fr, rx', tx, txseq, r.nds)
           /\ UNCHANGED <<tx, txseq, rts>>

\* ------------------------------------------------------------------ actions: reports, responses, time-outs
\* PfcpServer.ServeReport for usage reports produced by the data plane (causes given as usage-report-trigger flags)
Report(sref, lit, reps) ==
  LET hs == HdrSeid(sref, lit)
      i == SlotOfSeid(slots, hs)
      withTok == [j \in DOMAIN reps |-> [reps[j] EXCEPT !.tok = tok + j, !.vals = ValsOfTok(tok + j)]]
      e == [Ev("report") EXCEPT !.seid = hs, !.sref = sref, !.reports = withTok]
      us == SelectSeq(withTok, LAMBDA r : r.k = "usar")
      dl == SelectSeq(withTok, LAMBDA r : r.k = "dldr")
  IN /\ "report" \in Kinds
     /\ hs # "none"
     /\ tok' = tok + Len(reps)
     /\ IF i = 0 \/ (i # 0 /\ NodePeer(slots[i].node) = "none")     \* unknown session, or a node id that resolves nowhere
        THEN /\ Commit(e, <<>>, <<>>, slots, free, rx, tx, txseq, nodes)
             /\ UNCHANGED <<nodes, slots, free, rx, tx, txseq, dp, rts, nseq>>
        ELSE LET s == slots[i]
                 to == NodePeer(s.node)
                 em == EmitUsage(s, us, 0, FALSE)
                 \* downlink data report first (one per notification), then the usage report request
                 nocp == SelectSeq(dl, LAMBDA r : BitSet(r.action, ACT_NOCP))
                 dd == [j \in DOMAIN nocp |->
                          Seal([Dgram(to, MT_SRREQ, (txseq + j - 1) % SeqSpace) EXCEPT !.hasseid = TRUE, !.seid = s.cp, !.rtype = 1,
                                                                                    !.dldr = <<nocp[j].pdr>>])]
                 ud == IF us = <<>> THEN <<>>
                       ELSE << Seal([Dgram(to, MT_SRREQ, (txseq + Len(dd)) % SeqSpace) EXCEPT !.hasseid = TRUE, !.seid = s.cp,
                                                                                         !.rtype = 2, !.rpts = em.ies]) >>
                 out == dd \o ud
                 txs == tx \cup {[peer |-> o.to, seq |-> o.seq, hex |-> o.hex, n |-> 0, cp |-> o.seid, d |-> o] : o \in Rng(out)}
                 sl == [slots EXCEPT ![i] = em.s]
             IN /\ slots' = sl /\ tx' = txs /\ txseq' = txseq + Len(out)
                /\ Commit(e, <<>>, out, sl, free, rx, txs, txseq', nodes)
                /\ UNCHANGED <<nodes, free, rx, dp, rts, nseq>>

\* a response datagram (Session Report Response, or any other response type)
Response(p, q, t, hdrseid) ==
  LET e == [Ev(t) EXCEPT !.peer = p, !.seq = q, !.seid = hdrseid]
      ts == {x \in tx : x.peer = p /\ x.seq = q}
  IN /\ t \in Kinds
     /\ UNCHANGED nseq
     /\ IF ts = {}
        THEN /\ Commit(e, <<>>, <<>>, slots, free, rx, tx, txseq, nodes)
             /\ UNCHANGED <<nodes, slots, free, rx, tx, txseq, dp, tok, rts>>
        ELSE LET x == CHOOSE x \in ts : TRUE
                 txs == tx \ {x}
                 \* LocalNode.RemoteSess: first slot whose control-plane SEID and node address match
                 cands == {j \in DOMAIN slots : slots[j].live /\ slots[j].cp = x.cp /\ nodes[slots[j].node].addr = p}
             IN IF t = "rptrsp" /\ hdrseid = "0" /\ cands # {}
                THEN LET j == CHOOSE j \in cands : \A k \in cands : j <= k
                         r == DeleteSlot(j, {})
                     IN /\ slots' = r.sl /\ free' = r.fr /\ dp' = r.st.dp /\ tok' = r.st.tok /\ nodes' = r.nds /\ tx' = txs
                        /\ Commit(e, r.st.calls, <<>>, r.sl, r.fr, rx, txs, txseq, r.nds)
                        /\ UNCHANGED <<rx, txseq, rts>>
                ELSE /\ tx' = txs
                     /\ Commit(e, <<>>, <<>>, slots, free, rx, txs, txseq, nodes)
                     /\ UNCHANGED <<nodes, slots, free, rx, txseq, dp, tok, rts>>

TxTimeout(p, q) ==
  LET e == [Ev("timeout") EXCEPT !.tt = "tx", !.tpeer = p, !.tseq = q]
      ts == {x \in tx : x.peer = p /\ x.seq = q}
  IN /\ "txto" \in Kinds
     /\ UNCHANGED <<nodes, slots, free, rx, txseq, dp, tok, rts, nseq>>
     /\ IF ts = {} THEN tx' = tx /\ Commit(e, <<>>, <<>>, slots, free, rx, tx, txseq, nodes)
        ELSE LET x == CHOOSE x \in ts : TRUE IN
             IF x.n < g.maxrt      \* the configured retry limit (MaxRt in the exhaustive configurations, the trace's own in validation)
             THEN LET txs == (tx \ {x}) \cup {[x EXCEPT !.n = @ + 1]} IN
                  tx' = txs /\ Commit(e, <<>>, <<x.d>>, slots, free, rx, txs, txseq, nodes)
             ELSE tx' = tx \ {x} /\ Commit(e, <<>>, <<>>, slots, free, rx, tx \ {x}, txseq, nodes)

RxTimeout(p, q) ==
  LET e == [Ev("timeout") EXCEPT !.tt = "rx", !.tpeer = p, !.tseq = q]
      rxs == {r \in rx : ~(r.peer = p /\ r.seq = q)}
  IN /\ "rxto" \in Kinds
     /\ rx' = rxs
     /\ Commit(e, <<>>, <<>>, slots, free, rxs, tx, txseq, nodes)
     /\ UNCHANGED <<nodes, slots, free, tx, txseq, dp, tok, rts, nseq>>

\* ------------------------------------------------------------------ specification
Init ==
  /\ nodes = <<>> /\ slots = <<>> /\ free = <<>> /\ rx = {} /\ tx = {} /\ txseq = TxSeq0 /\ dp = {} /\ tok = 0 /\ rts = Rts
  /\ nseq = [p \in Peers |-> 0]
  /\ L = [tr |-> "mc", i |-> 0, e |-> [Ev("init") EXCEPT !.maxrt = MaxRt, !.txseq0 = ToString(TxSeq0)], calls |-> <<>>, out |-> <<>>,
          snap |-> Snap(<<>>, <<>>, {}, {}, TxSeq0, <<>>), fatal |-> ""]
  /\ g = [G0 EXCEPT !.maxrt = MaxRt]
  /\ bad = {}
  /\ hist = <<>>
  /\ turns = 0

LiveOrds == {slots[i].ord : i \in LiveSlots(slots)}
DeadOrds == (1..(NewOrd - 1)) \ LiveOrds
UsarRep(u, trig) == [k |-> "usar", urr |-> u, trig |-> trig, pdr |-> 0, action |-> 0, pkt |-> "", tok |-> 0, vals |-> NoVals]
DldrRep(p, act)  == [k |-> "dldr", urr |-> 0, trig |-> 0, pdr |-> p, action |-> act, pkt |-> "4500", tok |-> 0, vals |-> NoVals]

=============================================================================
