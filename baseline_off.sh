#!/bin/sh
# Runs the repository's test suite with the verification build tag OFF and checks that the 41 tests of
# /root/.vp/BASELINE.json (stable_pass) still pass.
cd /repo || exit 2
export GOFLAGS=-mod=mod GOPROXY=off GOSUMDB=off GOTOOLCHAIN=local
out=$(mktemp)
go test -mod=mod -json -vet=off -count=1 -timeout 25m ./... > "$out" 2>/dev/null
python3 - "$out" <<'PY'
import json, sys
passed = set()
for ln in open(sys.argv[1]):
    try:
        d = json.loads(ln)
    except ValueError:
        continue
    if d.get("Action") == "pass" and d.get("Test"):
        passed.add(d["Package"] + "::" + d["Test"])
base = json.load(open("/root/.vp/BASELINE.json"))["stable_pass"]
missing = [t for t in base if t not in passed]
print("baseline: %d/%d stable tests pass with the guard off" % (len(base) - len(missing), len(base)))
for t in missing:
    print("MISSING", t)
sys.exit(1 if missing else 0)
PY
rc=$?
rm -f "$out"
exit $rc
