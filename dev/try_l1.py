#!/usr/bin/env python3
import sys, os, json, collections, time
sys.path.insert(0, '/verif/lib')
import vlib, gen_l1
fam, seed, n = sys.argv[1], int(sys.argv[2]), int(sys.argv[3])
scripts = getattr(gen_l1, fam)(seed, n)
b = vlib.build_test_binary("internal/pfcp")
t0=time.time()
res = vlib.run_l1_parallel(b, scripts, 90, fam)
print("exec wall %.1fs" % (time.time()-t0))
allv = collections.Counter()
for fout, info in res:
    if info["rc"] != 0:
        print("child rc", info["rc"], info["tail"][-1500:])
    t0=time.time()
    doc = vlib.tlc_trace(fout, os.path.basename(fout))
    print(fout, "lines", doc["lines"], "viol", len(doc["viol"]), "tlc %.1fs" % (time.time()-t0))
    lines = None
    for v in doc["viol"]:
        for t in v["tags"]:
            allv[t]+=1
    if doc["viol"] and len(sys.argv) > 4:
        lines = vlib.read_ndjson(fout)
        idx = {(l["tr"], l["i"]): l for l in lines}
        for v in doc["viol"][:int(sys.argv[4])]:
            l = idx[(v["tr"], v["i"])]
            print("----", v["tr"], v["i"], v["tags"])
            print(" e:", {k:v for k,v in l["e"].items() if v not in ("",0,[],False)})
            print(" calls:", [(c['op'],c['kind'],c['seid'],c['id'],c['res'],len(c['reps'])) for c in l["calls"]])
            print(" out:", [{k:v for k,v in o.items() if k!='hex' and v not in ("",0,[],False)} for o in l["out"]])
            print(" snap:", l["snap"]["live"], l["snap"]["free"], l["snap"]["tx"], l["fatal"][:80])
for t,c in allv.most_common(): print(c, t)
