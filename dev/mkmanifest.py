#!/usr/bin/env python3
"""Regenerates /verif/MANIFEST.json from the table below (kept next to the code so that it stays valid)."""
import json, subprocess
props = [json.loads(l) for l in open('/verif/properties.jsonl')]
hooks = subprocess.run("git -C /repo log --format=%h --grep='^verif hook'", shell=True, capture_output=True, text=True).stdout.split()

L1_NOTE = ("Trusted: TLC 1.8 + CommunityModules Json; go-pfcp as the codec of the simulated SMFs; the model data plane (its own "
           "table behaviour is re-checked on every step); the abstraction function of the L1 executor. Exhaustive only within the "
           "constants recorded in the evidence file; beyond them seeded random histories.")
CLAIMS = {
 "C01": ("pfcp-l1", "§6 C01", "Monitor (Mon.tla: VCalls/VTable) over ghost state built from requests and data-plane results: call scoping, ownership of every installed rule, clean session end incl. failed and failed-after-effect creates. TLC checks the ideal model against it exhaustively (bounded), every edge of that graph and seeded random histories are executed on the real PfcpServer with a model data plane and the recorded traces are validated by TLC. The same statement is decided at the kernel boundary (MonL2!VKernel): with the real gtp5g driver on the simulated kernel the module's rule tables after every step must equal the rules requested by live sessions; random walks of the ideal model (tlc -simulate) add paths far beyond the exhaustive bound."),
 "C04": ("pfcp-l1", "§6 C04", "Monitor: UP SEID non-zero and unique among live sessions, request accepted iff its SEID addresses a live session, 'context not found' + SEID 0 + no side effect otherwise (literal SEIDs over the 64-bit range), re-issue only when no rule of the previous holder remains, free-list sanity from the loop-owned snapshot. The allocator on its own (SeidAlloc.tla) has an inductive invariant discharged by Apalache (issuing part of the statement for histories of any length); MC_Upf checks that the ideal model's allocator refines it (AllocRefines) and lock-step ties slots / free list to LocalNode after every step."),
 "C05": ("pfcp-l1", "§6 C05", "Monitor: every data-plane call tagged with the addressed session's SEID, session table after each step equals the ghost (bystanders untouched), re-association ends exactly the node's sessions, SEID-0 answer ends exactly the session matching control-plane SEID and peer; rule ids and CP-SEIDs collide on purpose."),
 "C06": ("pfcp-l1", "§6 C06", "Monitor over ghost rx table: a copy with a known (peer, sequence) causes no data-plane call, no session change and exactly the byte-identical cached response (or nothing); other requests are executed; retention expiry (injected) releases the bookkeeping (loop-owned snapshot)."),
 "C08": ("pfcp-l1", "§6 C08", "Monitor: response to the source address with the request's sequence number, peer's SEID or 0+'context not found', node id / UP F-SEID / created-PDR list in the Establishment Response, no effect for requests answered with an error or not at all, one recovery time stamp."),
 "C09": ("pfcp-l1", "§6 C09", "Monitor over ghost tx table: sequence numbers < 2^24 and distinct from outstanding ones (counter positioned around 2^24 and in the 32-bit range), byte-identical retransmission on injected expiry while retries remain, retirement on a response from the same peer, abandonment after the last retry, bookkeeping released, stray responses without effect."),
 "C10": ("pfcp-l1", "§6 C10", "Monitor: every usage report produced by the model data plane (notification, query, removal) for a live session and known URR appears exactly once, to the owning node, with the peer's SEID, with all measured values (64-bit spread tokens) and the measurement IEs selected by method / MNOP; unknown sessions/URRs dropped without disturbing the batch. Kernel multicast decoding is covered at L2."),
 "C11": ("pfcp-l1", "§6 C11", "Monitor: ghost counter per (session, URR incarnation); every usage-report IE in any of the three carriers must carry the counter's value in emission order."),
 "C12": ("pfcp-l1", "§6 C12", "Monitor: ghost PDR-URR relation from the Create/Update/Remove PDR IEs; the response must contain exactly one termination report per URR removed or un-referenced by the request and one immediate report per Query URR."),
 "C14": ("pure-l0", "§6 C14", "GtpuEnc.tla: reference G-PDU header for flags 0x34 plus an independent well-formedness reading of the statement; TLC checks the reference against that reading for QFI 0..63 x PDU type 0..15 x with/without extension x TEID and payload-length classes and prints every state as a test vector; the real encoder is evaluated on all of them and on seeded random vectors, TLC validates each recorded packet against the reference. The packets the full stack really re-injects (Gtp5g.WritePacket on BUFF->FORW) are read at simulated gNB sockets by an independent decoder that follows the flags and judged by MonL2!VGpdu (well-formed, T-PDU = a packet handed up, PDU Session Container / QFI of the flow)."),
 "C16": ("pure-l0", "§6 C16", "FlowDesc.tla: what an IPFilterRule denotes (octet-wise prefix masking, port ranges, uplink exchange); TLC enumerates abstract rules per grammar dimension (all protocols, prefix lengths 0..32, port lists of 0..3 items); rendered strings (varied spacing) go through the real parser and the real netlink encoder, the packed attributes are read back by an independent walker, TLC validates both results; near-miss and random strings must not fault."),
 "C19": ("pure-l0", "§6 C19", "Flags.tla: the four bit tables transcribed from TS 29.244; TLC enumerates the words (all 1-/2-octet apply-action words, reporting triggers, usage-report triggers, cause mapping, volume flags x MNOP) and checks the table round-trip; the real decoders/encoders/accessors are evaluated on every word, TLC validates what they answered."),
 "C20": ("pure-l0", "§6 C20", "Config.tla: accept/reject/silent verdict over the fault lattice of the configuration document; TLC enumerates all documents with up to 2 (thorough: 3) simultaneous faults, rendered YAML goes through the real ReadConfig, TLC validates acceptance, absence of a partially initialised object and unchanged values. The gtp5g version window is decided against the simulated netlink endpoint (second part of this check)."),
 "C02": ("driver-l2", "§6 C02", "RuleXlate.tla: translation of Create/Update PDR and FAR grouped IEs to bags of netlink leaves, on octets (no truncation, shift or cross-wiring can go unnoticed; 64-bit SEIDs need no arithmetic). TLC enumerates the structures (optional IEs present/absent/repeated, up/downlink, 1-/2-octet apply action, outer-header-creation forms) and checks order-independence of the reference; the harness concretises values (boundary classes, random octets, 64-bit SEIDs) and permutes the children; the REAL gtp5g driver runs against a simulated gtp5g netlink endpoint whose own attribute walker decodes each request; TLC validates every recorded request."),
 "C03": ("driver-l2", "§6 C03", "As C02 for QER, URR and BAR (40-bit rates split high32/low8, trigger words, every non-empty threshold/quota flag subset, 64-bit volumes); the periodic registration is observed as the OIDs of the GET_MULTI_REPORTS issued on an injected tick after Create URR and after Remove URR, judged against a ghost registration set."),
 "C13": ("fullstack-l2", "§6 C13", "MonL2.tla: ghost FIFO per (session, PDR) built from the BUFFER notifications the simulated kernel emitted; bounded capacity (newest dropped), downlink-data notification iff NOCP, on Update FAR with a new apply action exactly the queued packets of the FAR's PDRs in order, once, to the FAR's peer / TEID / first non-zero QFI (parsed by an independent G-PDU reader at simulated gNB sockets), nothing on DROP, nothing after session end or SEID re-use; queue lengths compared with the loop-owned snapshot. TLC checks the ideal full-stack model (UpfL2.tla, capacity 2) against the monitor exhaustively, its edges (one model packet = 256 real packets) and seeded random histories with bursts up to 600 packets run on the REAL PfcpServer + gtp5g driver + buffering listener + nl.Mux over the simulated kernel; TLC validates the recorded traces with capacity 512."),
 "C15": ("fullstack-l2", "§6 C15", "MonL2.tla: ghost registration set from Create/Remove URR and session ends; an injected tick must query exactly the registered (SEID, URR) pairs as a bag over all GET_MULTI_REPORTS batches seen by the simulated kernel, deliver one session report per session with each URR once and flagged PERIO; number of ticker goroutines = number of periods with registrations; after Stop no ticker is left. Ideal model checked exhaustively by TLC, edges and seeded random histories executed on the real stack, traces validated by TLC."),
 "C07": ("fullstack-l2", "§6 C07", "Trace_Alive.tla: after any sequence of structure-aware mutations (14 operators over header fields, IE lengths at every nesting level, truncation at IE boundaries, dropped / duplicated IEs, flag octets, inner length fields, SEIDs at boundary values, unknown types, raw bytes) of valid messages, delivered after valid prefixes that TLC generates from the life-cycle model (every edge = a state x position), the UPF has not faulted, answers a Heartbeat Request, and a session that no offending datagram addressed (by header SEID or node id) still accepts a request. Run with the model data plane (L1) and with the real gtp5g driver decoding the IEs over the simulated kernel (L2); a dead or hung process is a violation."),
 "C17": ("fullstack-l2", "§6 C17", "UpfConc.tla: goroutines and bounded channels as processes; TLC checks exactly-once consumption of report notifications and absence of a send on a closed channel for every schedule of the bounded model incl. Stop anywhere. The real stack is then stressed under the Go race detector (2-4 SMFs with random valid histories and duplicates, 2-8 report producers, millisecond transaction timers, ticks, Stop at a random moment): no race report, no fault, every notification yields exactly one downlink data report at the SMF, all goroutines gone after Stop."),
 "C18": ("fullstack-l2", "§6 C18", "UpfConc.tla decides for each scenario of a grid (sessions x URRs per session x bulk removal kind x notification burst x netlink latency, scaled to model capacities) whether a state is reachable in which nobody can move although work is left; the real stack runs every scenario with the real capacities (512 / 128) and must answer a Heartbeat Request afterwards. A wedge where the specification admits none, or with an unlisted blocked cycle, is a violation; the two wedges the specification predicts are recorded as known findings (goroutine dump must show the predicted cycle)."),
}
L0_NOTE = ("Trusted: TLC 1.8 + CommunityModules Json; the hand transcription of the standards' tables / the statement into the reference module "
           "(its internal consistency is model-checked); the harness's rendering of abstract vectors into concrete inputs.")
L2_NOTE = ("Trusted: TLC 1.8 + Json; go-gtp5gnl's numeric command / attribute ids (shared by driver and simulated kernel); go-pfcp's IE parser (IEs are built from raw TLV octets and parsed as on receipt); "
           "the simulated kernel (internal/zzverif/simk, overlay) as twin of the gtp5g module - the real module is never run.")
L2F_NOTE = ("Trusted: TLC 1.8 + Json; the simulated gtp5g kernel (rule tables, GET_* answers incl. FAR->PDR relation, deterministic measurements, BUFFER/REPORT multicasts) as twin of the module; go-pfcp as the SMFs' codec; "
            "marker notifications / marker period group used by the harness to know that the Mux and the periodic server have drained (no sleeps as oracles).")
checks = []
for p in props:
    pid = p["id"]
    if pid not in CLAIMS:
        continue
    eng, ref, text = CLAIMS[pid]
    checks.append({
        "property_id": pid,
        "quick_cmd": "VERIF_TIER=quick ./check %s" % pid,
        "thorough_cmd": "VERIF_TIER=thorough ./check %s" % pid,
        "evidence_file": "/verif/evidence/%s.json" % pid,
        "replay_cmd_template": "./check %s --replay {path}" % pid,
        "engine": eng,
        "level_claimed": {"category": "model_checking", "text": text, "design_ref": ref},
        "level_note": L1_NOTE if eng == "pfcp-l1" else (L0_NOTE if eng == "pure-l0" else (L2_NOTE if eng == "driver-l2" else L2F_NOTE)),
        "technique": ("explicit TLA+ spec (ideal model + property monitors), TLC exhaustive check, TLC-generated paths replayed on the real code, TLC trace validation of recorded executions" if eng == "pfcp-l1" else
                      "explicit TLA+ translation reference (RuleXlate.tla), TLC-enumerated IE structures driven through the real gtp5g driver into a simulated netlink kernel, TLC trace validation of the decoded requests" if eng == "driver-l2" else
                      "explicit TLA+ spec (full-stack ideal model UpfL2.tla + monitors MonL2.tla), TLC exhaustive check, TLC-generated paths replayed on the real stack over a simulated gtp5g kernel, TLC trace validation" if eng == "fullstack-l2" else
                      "explicit TLA+ reference function, TLC-enumerated test vectors evaluated by the real code, TLC trace validation of the recorded results"),
    })
na = [{"property_id": p["id"], "reason": "check under construction in this round (not yet registered); see DESIGN.md"} for p in props if p["id"] not in CLAIMS]
m = {
 "version": 1,
 "setup_cmd": "true",
 "hooks": {"guard": "verif", "enable": "go test -c -tags verif -overlay <generated overlay.json adding /verif/harness files> (lib/vlib.py build_test_binary)",
           "baseline_off_cmd": "/verif/baseline_off.sh", "source_commits": hooks, "add_only": True},
 "engines": [
   {"name": "pfcp-l1", "path": "/verif/harness/pfcp, /verif/spec/{Mon,Upf,MC_Upf,Trace_Upf}.tla", "serves_properties": sorted(k for k, v in CLAIMS.items() if v[0] == "pfcp-l1"),
    "kind_free_text": "real PfcpServer (real loop, receiver, UDP on 127.k.0.0/24) + model data plane; TLA+ ideal model and monitors; TLC both ways"},
   {"name": "pure-l0", "path": "/verif/harness/{gtpv1,report,forwarder,factory}, /verif/spec/{GtpuEnc,Flags,FlowDesc,Config}.tla + MC_*/Trace_*", "serves_properties": sorted(k for k, v in CLAIMS.items() if v[0] == "pure-l0"),
    "kind_free_text": "function-level executors (overlay test files) fed with TLC-enumerated vectors; TLA+ reference functions"},
   {"name": "driver-l2", "path": "/verif/harness/{forwarder,simk,perio,buffnetlink}, /verif/spec/{RuleXlate,MC_Rules,Trace_Rules}.tla", "serves_properties": sorted(k for k, v in CLAIMS.items() if v[0] == "driver-l2"),
    "kind_free_text": "real Gtp5g driver + real perio server on a simulated gtp5g generic-netlink endpoint (socketpair nl.Conner, real nl.Mux)"},
   {"name": "fullstack-l2", "path": "/verif/harness/pfcp/zz_verif_l2_test.go, /verif/spec/{MonL2,UpfL2,MC_L2,Trace_L2}.tla", "serves_properties": sorted(k for k, v in CLAIMS.items() if v[0] == "fullstack-l2") + ["C10"],
    "kind_free_text": "real PfcpServer + Gtp5g + perio.Server + buffnetlink.Server + nl.Mux wired as pkg/app, simulated kernel, SMFs and gNBs on loopback"},
 ],
 "checks": checks,
 "not_applicable": na,
 "notes": "see /verif/DESIGN.md; known and fixed findings in /verif/known_findings.json",
}
json.dump(m, open('/verif/MANIFEST.json', 'w'), indent=1)
print("checks:", [c["property_id"] for c in checks], "n/a:", len(na))
