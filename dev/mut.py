#!/usr/bin/env python3
"""dev tool: apply a textual mutation (old -> new in a repo file), run checks, revert. usage: mut.py <name> <check ids...>"""
import subprocess, sys, os
MUT = {
 "m01": ("internal/pfcp/node.go", "\ts.FARIDs[id] = struct{}{}\n\n\terr = s.rnode.driver.CreateFAR(s.LocalID, req)\n\tif err != nil {\n\t\treturn err\n\t}\n\treturn nil", "\terr = s.rnode.driver.CreateFAR(s.LocalID, req)\n\tif err != nil {\n\t\treturn err\n\t}\n\ts.FARIDs[id] = struct{}{}\n\treturn nil"),
 "m02": ("internal/pfcp/transaction.go", "if tx.retransCount < tx.maxRetrans {", "if tx.retransCount <= tx.maxRetrans {"),
 "m03": ("internal/pfcp/node.go", "\tseq := info.SEQN\n\tinfo.SEQN++\n\treturn seq", "\tinfo.SEQN++\n\treturn info.SEQN"),
 "m04": ("internal/pfcp/session.go", "\t\tsess.RemoteID, // seid\n\t\treq.Header.SequenceNumber,\n\t\t0, // pri\n\t\tie.NewCause(ie.CauseRequestAccepted),\n\t)\n\tfor _, r := range usars {\n\t\turrInfo, ok := sess.URRIDs[r.URRID]\n\t\tif !ok {\n\t\t\tsess.log.Warnf(\"Sess Mod", "\t\tsess.LocalID, // seid\n\t\treq.Header.SequenceNumber,\n\t\t0, // pri\n\t\tie.NewCause(ie.CauseRequestAccepted),\n\t)\n\tfor _, r := range usars {\n\t\turrInfo, ok := sess.URRIDs[r.URRID]\n\t\tif !ok {\n\t\t\tsess.log.Warnf(\"Sess Mod"),
 "m05": ("internal/pfcp/node.go", "func (n *RemoteNode) Reset() {\n\tfor id := range n.sess {\n\t\tn.DeleteSess(id)\n\t}", "func (n *RemoteNode) Reset() {\n\tfor id := range n.sess {\n\t\t_ = id\n\t}"),
 "m06": ("internal/pfcp/pfcp.go", "\t\t\t\ttrID := fmt.Sprintf(\"%s-%d\", rcvPkt.RemoteAddr, msg.Sequence())\n\t\t\tif isRequest(msg) {", "XX"),
 "m07": ("internal/pfcp/node.go", "\tdelete(s.FARIDs, id)\n\treturn nil", "\treturn nil"),
 "m08": ("internal/pfcp/node.go", "\t\tif s.RemoteID == rSeid && s.rnode.addr.String() == addr.String() {", "\t\tif s.RemoteID == rSeid {"),
 "m09": ("internal/pfcp/transaction.go", "\tdelete(rx.server.rxTrans, rx.id)", "\t_ = rx.id"),
 "m10": ("internal/pfcp/node.go", "\t\t\tfor i := range usars {\n\t\t\t\tusars[i].USARTrigger.Flags |= report.USAR_TRIG_TERMR\n\t\t\t}\n\t\t\treturn usars", "\t\t\treturn usars"),
 "m11": ("internal/report/report.go", "\t\tm.UplinkVolume,\n\t\tm.DownlinkVolume,\n\t\tm.TotalPktNum,", "\t\tm.DownlinkVolume,\n\t\tm.UplinkVolume,\n\t\tm.TotalPktNum,"),
 "m12": ("internal/pfcp/report.go", "\t\t\tsess.log.Warnf(\"serveUSAReport: URRInfo[%#x] not found\", r.URRID)\n\t\t\tcontinue", "\t\t\tsess.log.Warnf(\"serveUSAReport: URRInfo[%#x] not found\", r.URRID)\n\t\t\tbreak"),
 "m13": ("internal/report/report.go", "\tUSAR_TRIG_LIUSA\n\tUSAR_TRIG_TERMR", "\tUSAR_TRIG_TERMR\n\tUSAR_TRIG_LIUSA"),
 "m14": ("internal/report/report.go", "\tcase RPT_TRIG_ENVCL:\n\t\tt.Flags |= USAR_TRIG_ENVCL", "\tcase RPT_TRIG_ENVCL:\n\t\tt.Flags |= USAR_TRIG_MONIT"),
 "m15": ("internal/gtpv1/msg.go", "\tb[2] = e.PDUType << 4", "\tb[2] = e.PDUType << 3"),
 "m16": ("internal/report/report.go", "\tv := make([]byte, max(2, len(b)))\n\tcopy(v, b)\n\ta.Flags = binary.LittleEndian.Uint16(v)", "\tv := make([]byte, max(2, len(b)))\n\tcopy(v, b)\n\ta.Flags = binary.BigEndian.Uint16(v)"),
 "m17": ("internal/forwarder/gtp5g.go", "\t\t\t*x = uint32(p[0])<<16 | uint32(p[1])", "\t\t\t*x = uint32(p[1])<<16 | uint32(p[0])"),
 "m18": ("internal/forwarder/gtp5g.go", "\t\tfd.SrcPorts, fd.DstPorts = fd.DstPorts, fd.SrcPorts\n", ""),
 "m19": ("internal/forwarder/flowdesc.go", "\t_, ipnet, err := net.ParseCIDR(s)\n\tif err == nil {\n\t\treturn ipnet, nil", "\tip0, ipnet, err := net.ParseCIDR(s)\n\tif err == nil {\n\t\tipnet.IP = ip0.To4()\n\t\treturn ipnet, nil"),
 "m20": ("pkg/factory/config.go", 'valid:"required,in(trace|debug|info|warn|error|fatal|panic)"', 'valid:"optional,in(trace|debug|info|warn|error|fatal|panic)"'),
 "m21": ("pkg/factory/config.go", 'yaml:"cidr"      valid:"required,cidr"', 'yaml:"cidr"      valid:"required"'),
 "m22": ("pkg/factory/factory.go", "\t\treturn nil, errors.Errorf(\"cfg.Pfcp.NodeID[%s] can't be resolved\", cfg.Pfcp.NodeID)", "\t\tlogger.CfgLog.Warnf(\"cfg.Pfcp.NodeID[%s] can't be resolved\", cfg.Pfcp.NodeID)"),
 "m23": ("pkg/factory/config.go", 'valid:"required,in(N3|N9)"', 'valid:"required,in(N3|N9|N6)"'),
 "m24": ("internal/forwarder/gtp5g.go", "\t\t\t\t\t\tType:  gtp5gnl.QER_MBR_UL_HIGH32,\n\t\t\t\t\t\tValue: nl.AttrU32(ul >> 8),\n\t\t\t\t\t},\n\t\t\t\t\t{\n\t\t\t\t\t\tType:  gtp5gnl.QER_MBR_UL_LOW8,\n\t\t\t\t\t\tValue: nl.AttrU8(ul),\n\t\t\t\t\t},\n\t\t\t\t\t{\n\t\t\t\t\t\tType:  gtp5gnl.QER_MBR_DL_HIGH32,\n\t\t\t\t\t\tValue: nl.AttrU32(dl >> 8),", "XX"),
 "m25": ("internal/forwarder/gtp5g.go", "\tif v.HasDLVOL() {\n\t\tattrs = append(attrs, nl.Attr{\n\t\t\tType:  gtp5gnl.URR_VOLUME_QUOTA_DVOL,", "\tif v.HasDLVOL() {\n\t\tattrs = append(attrs, nl.Attr{\n\t\t\tType:  gtp5gnl.URR_VOLUME_QUOTA_UVOL,"),
 "m26": ("internal/forwarder/gtp5g.go", "\t\tswapSrcDst := (srcIf == ie.SrcInterfaceAccess)", "\t\tswapSrcDst := (srcIf == ie.SrcInterfaceCore)"),
 "m27": ("internal/forwarder/gtp5g.go", "\toid := gtp5gnl.OID{lSeid, farid}\n\treturn gtp5gnl.UpdateFAROID", "\toid := gtp5gnl.OID{lSeid & 0xffffffff, farid}\n\treturn gtp5gnl.UpdateFAROID"),
 "m28": ("internal/forwarder/gtp5g.go", "\tif rptTrig.PERIO() {\n\t\tif measurePeriod <= 0 {", "\tif rptTrig.VOLTH() {\n\t\tif measurePeriod <= 0 {"),
 "m29": ("internal/forwarder/gtp5g.go", "\tg.ps.DelPeriodReportTimer(lSeid, v)\n", ""),
 "m30": ("internal/pfcp/node.go", "\tdefault:\n\t\ts.log.Debugf(\"q[%d](len:%d) is full, drop it\", pdrid, len(q))", "\tdefault:\n\t\t<-q\n\t\tq <- pkt"),
 "m31": ("internal/forwarder/gtp5g.go", "\tif far.Action&report.APPLY_ACT_BUFF == 0 {\n\t\treturn\n\t}\n", ""),
 "m32": ("internal/pfcp/report.go", "\t\t\tif r.Action&report.APPLY_ACT_NOCP == 0 {\n\t\t\t\treturn\n\t\t\t}\n", ""),
 "m33": ("internal/forwarder/gtp5g.go", "\t\t\t\tif q.QFI != 0 {\n\t\t\t\t\tqer = q\n\t\t\t\t\tbreak\n\t\t\t\t}", "\t\t\t\tif q.QFI != 0 {\n\t\t\t\t\tqer = q\n\t\t\t\t}"),
 "m34": ("internal/pfcp/node.go", "\tfor _, q := range s.q {\n\t\tclose(q)\n\t}", "\tfor range s.q {\n\t}"),
 "m35": ("internal/forwarder/perio/server.go", "\t\t\t\t\tusars[i].USARTrigger.Flags |= report.USAR_TRIG_PERIO\n", ""),
 "m36": ("internal/forwarder/perio/server.go", "\t\t\t\t\tif len(perioGroup.urrids[e.lSeid]) == 0 {", "\t\t\t\t\tif len(perioGroup.urrids[e.lSeid]) <= 1 {"),
 "m37": ("internal/forwarder/perio/server.go", "\t\t\t\t\t\t\tperioGroup.stopTicker()\n\t\t\t\t\t\t\tdelete(s.perioList, period)", "\t\t\t\t\t\t\tdelete(s.perioList, period)"),
 "m38": ("internal/forwarder/buffnetlink/server.go", "\t\t\t\tUplinkVolume:   r.VolMeasurement.UplinkVolume,\n\t\t\t\tDownlinkVolume: r.VolMeasurement.DownlinkVolume,\n\t\t\t\tTotalPktNum:", "\t\t\t\tUplinkVolume:   r.VolMeasurement.DownlinkVolume,\n\t\t\t\tDownlinkVolume: r.VolMeasurement.UplinkVolume,\n\t\t\t\tTotalPktNum:"),
 "m40": ("internal/pfcp/transaction.go", "\t\t\trx.server.NotifyTransTimeout(RX, rx.id)", "\t\t\trx.handleTimeout()"),
 "m41": ("internal/pfcp/pfcp.go", "\tREPORT_CHANNEL_LEN        = 128", "\tREPORT_CHANNEL_LEN        = 16"),
 "m42": ("internal/forwarder/perio/server.go", "\tEVENT_CHANNEL_LEN = 512", "\tEVENT_CHANNEL_LEN = 64"),
 "m44": ("internal/forwarder/gtp5g.go", "\toid := gtp5gnl.OID{lSeid, uint64(v)}\n\treturn gtp5gnl.RemoveQEROID(g.client, g.link.link, oid)", "\toid := gtp5gnl.OID{lSeid, uint64(v)}\n\t_ = oid\n\treturn nil"),
 "m45": ("internal/forwarder/gtp5g.go", "\t\t\t\toids = oids[:0]\n\t\t\t\tqueryNum = 0", "\t\t\t\tqueryNum = 0"),
 "m46": ("internal/forwarder/gtp5g.go", "\t\t\tif queryNum >= queryNumOnce {", "\t\t\tif queryNum > queryNumOnce {"),
 "m43": ("internal/pfcp/pfcp.go", "\tselect {\n\tcase s.trToCh <- TransactionTimeout{TrType: trType, TrID: trID}:\n\tcase <-s.done:\n\t}", "\ts.trToCh <- TransactionTimeout{TrType: trType, TrID: trID}"),
}
name = sys.argv[1]
f, old, new = MUT[name]
p = os.path.join("/repo", f)
s = open(p).read()
assert s.count(old) == 1, (name, s.count(old))
open(p, "w").write(s.replace(old, new))
try:
    env = dict(os.environ, GOFLAGS="-mod=mod", GOPROXY="off", GOSUMDB="off", GOTOOLCHAIN="local")
    r = subprocess.run(["go", "build", "./..."], cwd="/repo", env=env)
    print("build rc", r.returncode)
    r = subprocess.run("go test -count=1 ./internal/pfcp/ ./internal/report/ ./internal/gtpv1/ ./internal/forwarder/ 2>&1 | grep -v FAIL | tail -3", shell=True, cwd="/repo", env=env)
    for c in sys.argv[2:]:
        r = subprocess.run("/verif/check %s 2>&1 | grep -v '^  rejected' | tail -4" % c, shell=True, cwd="/verif")
finally:
    subprocess.run(["git", "checkout", "--", "."], cwd="/repo")
    print("reverted", subprocess.run(["git", "status", "--short"], cwd="/repo", capture_output=True, text=True).stdout)
