import sys, json, os
sys.path.insert(0, os.path.join(os.path.dirname(__file__), "..", "lib"))
import vlib, checks
pid, family, turns, gen = sys.argv[1], sys.argv[2], int(sys.argv[3]), sys.argv[4]
for rep in range(int(sys.argv[7])):
    mc, scripts, rnd, viols, st = checks.l2_part(pid, family, turns, gen, int(sys.argv[5]), int(sys.argv[6]))
    for v in viols:
        print("=====", v["tr"], v["i"], v["tags"], "tickers", v["line"]["tickers"])
        for e in v["script"]["events"][:v["i"]+1]:
            print("   ", e["t"], e.get("node"), e.get("seid"), e.get("sref"), e.get("period"), [(o["op"], o["kind"], o["id"], o.get("perio"), o.get("period")) for o in e.get("ops", [])])
