#!/bin/bash
# usage: seedtest.sh <Cxx> <demo test regex> <pkg> [checks...]   - confirms a seeded change and runs checks against it
set -u
P=$1; RX=$2; PKG=$3; shift 3
export GOFLAGS=-mod=mod GOPROXY=off GOSUMDB=off GOTOOLCHAIN=local
W=${WT:-/tmp/wt-$P}
D=${OUT:-$P}
cd $W || exit 2
echo "== build with change"; go build ./... || exit 2
echo "== demo with change (must FAIL)"; go test -count=1 -run "$RX" $PKG > /tmp/seed-$D-with.log 2>&1; echo "rc=$?"
echo "== existing tests with change (must pass)"; go test -count=1 -skip "$RX" ./internal/pfcp/ ./internal/report/ ./internal/gtpv1/ ./internal/forwarder/perio/ 2>&1 | tail -4
git apply -R SEED/patch.diff || { echo "cannot revert the change in the worktree"; exit 2; }
echo "== demo without change (must PASS)"; go test -count=1 -run "$RX" $PKG > /tmp/seed-$D-without.log 2>&1; echo "rc=$?"
git apply SEED/patch.diff
mkdir -p /verif/seeded/$D && cp SEED/patch.diff SEED/notes.txt /verif/seeded/$D/ && cp SEED/*_test.go /verif/seeded/$D/demo_test.go.txt
cd /repo && git apply /verif/seeded/$D/patch.diff || { echo "patch does not apply to /repo"; exit 2; }
for c in "$@"; do (cd /verif && ./check $c > /tmp/seed-$D-$c.log 2>&1; echo "check $c rc=$? $(grep -c ^VIOLATION /tmp/seed-$D-$c.log) violations"); done
git -C /repo checkout -- . ; git -C /repo status --short
