#!/bin/bash
# usage: benigntest.sh <n> <checks...> : apply /verif/benign/b<n>/patch.diff to /repo, run the checks (must all exit 0), revert
N=$1; shift
cd /repo && git apply /verif/benign/b$N/patch.diff || { echo "b$N: patch does not apply"; exit 2; }
export GOFLAGS=-mod=mod GOPROXY=off GOSUMDB=off GOTOOLCHAIN=local
go build ./... || echo "b$N: BUILD FAILS"
for c in "$@"; do (cd /verif && ./check $c > /tmp/benign-$N-$c.log 2>&1; echo "b$N check $c rc=$? $(grep -c ^VIOLATION /tmp/benign-$N-$c.log) violations $(grep -c SPEC-DIVERGENCE /tmp/benign-$N-$c.log) divergences"); done
git -C /repo checkout -- . ; git -C /repo status --short
