import sys, json, os
sys.path.insert(0, os.path.join(os.path.dirname(__file__), "..", "lib"))
import vlib, checks
pid, family, turns, gen = sys.argv[1], sys.argv[2], int(sys.argv[3]), sys.argv[4]
mc, scripts, rnd, viols, st = checks.l2_part(pid, family, turns, gen, int(sys.argv[5]), int(sys.argv[6]))
print(len(viols), "violations", st["events"], "events")
seen = set()
for v in viols:
    key = tuple(v["tags"])
    if key in seen: continue
    seen.add(key)
    print("=====", v["tr"], v["i"], v["tags"])
    print(json.dumps(v["line"])[:3000])
    print(json.dumps(v["script"]["events"][:v["i"]+1])[:6000])
