#!/bin/sh
# runs every registered quick check on the current tree (evidence files are rewritten); prints a summary
cd /verif
for p in $(python3 -c "import json;print(' '.join(c['property_id'] for c in json.load(open('MANIFEST.json'))['checks']))"); do
  if [ -n "$1" ] && ! echo "$@" | grep -qw "$p"; then continue; fi
  s=$(date +%s)
  VERIF_TIER=${VERIF_TIER:-quick} ./check $p > /tmp/runall-$p.log 2>&1
  rc=$?
  echo "$p rc=$rc $(( $(date +%s) - s ))s $(grep -c '^VIOLATION' /tmp/runall-$p.log) violations $(grep -c '^KNOWN-FINDING' /tmp/runall-$p.log) known"
done
