//go:build verif

package forwarder

// Executor for C02 / C03 (and the version part of C20): the REAL gtp5g driver, built around a
// simulated gtp5g netlink endpoint (internal/zzverif/simk), is handed grouped IEs assembled from the
// abstract IE trees TLC enumerates (spec/RuleXlate.tla); the netlink request the simulated kernel
// receives is decoded by simk's own attribute walker and recorded as a list of leaves.

import (
	"bufio"
	"encoding/json"
	"fmt"
	"os"
	"strconv"
	"strings"
	"sync"
	"testing"
	"time"

	"github.com/khirono/go-nl"
	"github.com/wmnsk/go-pfcp/ie"

	"github.com/free5gc/go-upf/internal/forwarder/perio"
	"github.com/free5gc/go-upf/internal/logger"
	"github.com/free5gc/go-upf/internal/report"
	"github.com/free5gc/go-upf/internal/zzverif/simk"
)

type vfTree struct {
	T    int             `json:"t"`
	V    []int           `json:"v"`
	Kids []vfTree        `json:"kids"`
	G    bool            `json:"g"`              // grouped IE
	Rule json.RawMessage `json:"rule,omitempty"` // SDF filter: the abstract rule its text was rendered from
}

func (t vfTree) bytes() []byte {
	var p []byte
	if t.G {
		for _, k := range t.Kids {
			p = append(p, k.bytes()...)
		}
	} else {
		for _, x := range t.V {
			p = append(p, byte(x))
		}
	}
	b := []byte{byte(t.T >> 8), byte(t.T), byte(len(p) >> 8), byte(len(p))}
	return append(b, p...)
}

type vfRuleStep struct {
	Fn     string `json:"fn"` // CreatePDR ... RemoveURR | tick | version
	Tree   vfTree `json:"tree"`
	Period int    `json:"period"`  // tick: seconds
	Ver    string `json:"version"` // version: what the simulated module reports
}

type vfRuleIn struct {
	ID    string          `json:"id"`
	SEID  string          `json:"seid"`
	Steps []vfRuleStep    `json:"steps"`
	Meta  json.RawMessage `json:"meta"`
}

type vfLeaf struct {
	P string `json:"p"`
	V []int  `json:"v"`
	N bool   `json:"n"` // a nested attribute without children
}

type vfKReq struct {
	Conn   string     `json:"conn"`
	Op     string     `json:"op"`
	Kind   string     `json:"kind"`
	SEID   string     `json:"seid"`
	ID     int        `json:"id"`
	Link   int        `json:"link"`
	Errno  int        `json:"errno"`
	Leaves []vfLeaf   `json:"leaves"`
	OIDs   [][]string `json:"oids"`
}

type vfRuleStepOut struct {
	Fn    string   `json:"fn"`
	Err   string   `json:"err"`
	Panic string   `json:"panic"`
	Reqs  []vfKReq `json:"reqs"`
}

type vfRuleOut struct {
	ID    string          `json:"id"`
	SEID  string          `json:"seid"`
	Steps []vfRuleStepOut `json:"steps"`
	In    []vfRuleStep    `json:"in"`
	Meta  json.RawMessage `json:"meta"`
}

func vfLeaves(as []simk.Attr, prefix string, out *[]vfLeaf) {
	for _, a := range as {
		p := prefix + strconv.Itoa(a.Type)
		if a.Nested {
			if len(a.Kids) == 0 {
				*out = append(*out, vfLeaf{P: p, V: []int{}, N: true})
			}
			vfLeaves(a.Kids, p+".", out)
			continue
		}
		v := make([]int, len(a.Val))
		for i, x := range a.Val {
			v[i] = int(x)
		}
		*out = append(*out, vfLeaf{P: p, V: v})
	}
}

func vfKReqs(log []simk.Req) []vfKReq {
	out := []vfKReq{}
	for _, r := range log {
		q := vfKReq{Conn: r.Conn, Op: r.Op, Kind: r.Kind, SEID: strconv.FormatUint(r.SEID, 10), ID: int(r.ID), Link: r.Link,
			Errno: r.Errno, Leaves: []vfLeaf{}, OIDs: [][]string{}}
		vfLeaves(r.Attrs, "", &q.Leaves)
		for _, o := range r.OIDs {
			q.OIDs = append(q.OIDs, []string{strconv.FormatUint(o[0], 10), strconv.FormatUint(o[1], 10)})
		}
		out = append(out, q)
	}
	return out
}

// vfStack is the real driver on top of the simulated kernel
type vfStack struct {
	k      *simk.Kernel
	mux    *nl.Mux
	g      *Gtp5g
	ps     *perio.Server
	wg     sync.WaitGroup
	marker chan struct{}
	conns  []*simk.Conn
}

const vfMarkerSeid = uint64(0x7fffffffffff0001)
const vfMarkerPeriod = 87654 * time.Hour

type vfNullHandler struct{}

func (vfNullHandler) NotifySessReport(report.SessReport)      {}
func (vfNullHandler) PopBufPkt(uint64, uint16) ([]byte, bool) { return nil, false }

func vfNewStack() (*vfStack, error) {
	s := &vfStack{k: simk.New(), marker: make(chan struct{}, 16)}
	mux, err := nl.NewMux()
	if err != nil {
		return nil, err
	}
	s.mux = mux
	s.wg.Add(1)
	go func() { defer s.wg.Done(); _ = mux.Serve() }()
	c1, err := s.k.NewConn("main")
	if err != nil {
		return nil, err
	}
	c2, err := s.k.NewConn("ps")
	if err != nil {
		return nil, err
	}
	s.conns = []*simk.Conn{c1, c2}
	ps, err := perio.OpenServer(&s.wg)
	if err != nil {
		return nil, err
	}
	s.ps = ps
	s.g = VerifNewGtp5g(mux, c1, c2, simk.FamilyID, 7, nil, nil, ps)
	// the periodic server queries through the driver; a marker group tells when its queue has drained
	ps.Handle(vfNullHandler{}, func(m map[uint64][]uint32) (map[uint64][]report.USAReport, error) {
		if _, ok := m[vfMarkerSeid]; ok {
			s.marker <- struct{}{}
			return nil, nil
		}
		return s.g.psQueryURR(m)
	})
	ps.AddPeriodReportTimer(vfMarkerSeid, 1, vfMarkerPeriod)
	return s, nil
}

func (s *vfStack) psSync() error {
	s.ps.VerifTick(vfMarkerPeriod)
	select {
	case <-s.marker:
		return nil
	case <-time.After(20 * time.Second):
		return fmt.Errorf("periodic server did not drain its queue within 20 s")
	}
}

func (s *vfStack) close() {
	s.ps.Close()
	for _, c := range s.conns {
		c.Close()
	}
	s.mux.Close()
	s.wg.Wait()
}

func TestVerifRules(t *testing.T) {
	in, out := os.Getenv("VERIF_IN"), os.Getenv("VERIF_OUT")
	if in == "" || out == "" {
		t.Skip("VERIF_IN / VERIF_OUT not set")
	}
	logger.Log.SetLevel(0)
	fi, err := os.Open(in)
	if err != nil {
		t.Fatalf("INFRA: %v", err)
	}
	defer fi.Close()
	fo, err := os.Create(out)
	if err != nil {
		t.Fatalf("INFRA: %v", err)
	}
	defer fo.Close()
	w := bufio.NewWriterSize(fo, 1<<20)
	defer w.Flush()
	enc := json.NewEncoder(w)
	sc := bufio.NewScanner(fi)
	sc.Buffer(make([]byte, 1<<20), 1<<26)
	st, err := vfNewStack()
	if err != nil {
		t.Fatalf("INFRA: %v", err)
	}
	defer st.close()
	n := 0
	for sc.Scan() {
		if strings.TrimSpace(sc.Text()) == "" {
			continue
		}
		var v vfRuleIn
		if err := json.Unmarshal(sc.Bytes(), &v); err != nil {
			t.Fatalf("INFRA: %v", err)
		}
		seid, _ := strconv.ParseUint(v.SEID, 10, 64)
		o := vfRuleOut{ID: v.ID, SEID: v.SEID, In: v.Steps, Meta: v.Meta, Steps: []vfRuleStepOut{}}
		if len(o.Meta) == 0 {
			o.Meta = json.RawMessage(`{}`)
		}
		for _, sp := range v.Steps {
			so := vfRuleStepOut{Fn: sp.Fn}
			st.k.TakeLog()
			func() {
				defer func() {
					if p := recover(); p != nil {
						so.Panic = fmt.Sprint(p)
					}
				}()
				var e error
				if sp.Fn == "tick" {
					st.ps.VerifTick(time.Duration(sp.Period) * time.Second)
					e = st.psSync()
					if e != nil {
						t.Fatalf("INFRA: %v", e)
					}
					return
				}
				if sp.Fn == "version" {
					st.k.SetLocked(func() { st.k.Version = sp.Ver })
					if e = st.g.VerifCheckVersion(); e != nil {
						so.Err = e.Error()
					}
					return
				}
				x, perr := ie.Parse(sp.Tree.bytes())
				if perr != nil {
					so.Err = "harness: " + perr.Error()
					return
				}
				g := st.g
				switch sp.Fn {
				case "CreatePDR":
					e = g.CreatePDR(seid, x)
				case "UpdatePDR":
					e = g.UpdatePDR(seid, x)
				case "RemovePDR":
					e = g.RemovePDR(seid, x)
				case "CreateFAR":
					e = g.CreateFAR(seid, x)
				case "UpdateFAR":
					e = g.UpdateFAR(seid, x)
				case "RemoveFAR":
					e = g.RemoveFAR(seid, x)
				case "CreateQER":
					e = g.CreateQER(seid, x)
				case "UpdateQER":
					e = g.UpdateQER(seid, x)
				case "RemoveQER":
					e = g.RemoveQER(seid, x)
				case "CreateURR":
					e = g.CreateURR(seid, x)
				case "UpdateURR":
					_, e = g.UpdateURR(seid, x)
				case "RemoveURR":
					_, e = g.RemoveURR(seid, x)
				case "CreateBAR":
					e = g.CreateBAR(seid, x)
				case "UpdateBAR":
					e = g.UpdateBAR(seid, x)
				case "RemoveBAR":
					e = g.RemoveBAR(seid, x)
				default:
					e = fmt.Errorf("harness: unknown fn %s", sp.Fn)
				}
				if e != nil {
					so.Err = e.Error()
				}
				if perr := st.psSync(); perr != nil {
					t.Fatalf("INFRA: %v", perr)
				}
			}()
			so.Reqs = vfKReqs(st.k.TakeLog())
			o.Steps = append(o.Steps, so)
		}
		if err := enc.Encode(o); err != nil {
			t.Fatalf("INFRA: %v", err)
		}
		n++
	}
	fmt.Printf("VERIF-RULES vectors=%d\n", n)
}
