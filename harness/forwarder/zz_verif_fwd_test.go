//go:build verif

package forwarder

// L0 executor for C16: the REAL flow-description parser and the REAL netlink encoder of the gtp5g
// driver, evaluated on rules rendered from the abstract rules TLC enumerates (spec/FlowDesc.tla),
// on grammar-generated random rules and on near-miss / garbage strings.

import (
	"bufio"
	"encoding/binary"
	"encoding/json"
	"fmt"
	"net"
	"os"
	"testing"

	"github.com/khirono/go-nl"

	"github.com/free5gc/go-gtp5gnl"
)

type vfFdIn struct {
	ID   string          `json:"id"`
	S    string          `json:"s"`
	Swap bool            `json:"swap"`
	Rule json.RawMessage `json:"rule"` // the abstract rule (nil for garbage)
}

type vfFilter struct {
	Err    bool    `json:"err"`
	Action string  `json:"action"`
	Dir    string  `json:"dir"`
	Proto  int     `json:"proto"`
	Src    []int   `json:"src"`
	SMask  []int   `json:"smask"`
	Dst    []int   `json:"dst"`
	DMask  []int   `json:"dmask"`
	SPorts [][]int `json:"sports"`
	DPorts [][]int `json:"dports"`
}

type vfFdOut struct {
	ID      string          `json:"id"`
	S       string          `json:"s"`
	Swap    bool            `json:"swap"`
	Rule    json.RawMessage `json:"rule"`
	HasRule bool            `json:"hasrule"`
	Parsed  vfFilter        `json:"parsed"`
	Packed  vfFilter        `json:"packed"`
	Agree   bool            `json:"agree"` // the independent walker and go-gtp5gnl's DecodeFlowDesc agree
	Panic   string          `json:"panic"`
}

func vfInts(b []byte) []int {
	r := make([]int, len(b))
	for i, x := range b {
		r[i] = int(x)
	}
	return r
}

func vfPorts(p [][]uint16) [][]int {
	r := [][]int{}
	for _, x := range p {
		switch len(x) {
		case 1:
			r = append(r, []int{int(x[0]), int(x[0])})
		case 2:
			r = append(r, []int{int(x[0]), int(x[1])})
		default:
			r = append(r, []int{-1, -1})
		}
	}
	return r
}

func vfNoFilter() vfFilter {
	return vfFilter{Err: true, Src: []int{}, SMask: []int{}, Dst: []int{}, DMask: []int{}, SPorts: [][]int{}, DPorts: [][]int{}}
}

// vfAddr: an IPv4 attribute must carry the address in its first four octets; longer all-zero
// values (the driver's form of 'any') are read as 0.0.0.0
func vfAddr(b []byte) []int {
	if len(b) < 4 {
		return []int{-1}
	}
	for _, x := range b[4:] {
		if x != 0 {
			return []int{-2}
		}
	}
	return vfInts(b[:4])
}

// vfWalkFlowDesc is an independent reader of the gtp5g FLOW_DESCRIPTION attribute set
func vfWalkFlowDesc(b []byte) vfFilter {
	f := vfNoFilter()
	f.Err = false
	f.Proto = -1
	for len(b) >= 4 {
		l := int(binary.LittleEndian.Uint16(b[0:2]))
		t := int(binary.LittleEndian.Uint16(b[2:4])) & 0x3fff
		if l < 4 || l > len(b) {
			f.Err = true
			return f
		}
		v := b[4:l]
		switch t {
		case gtp5gnl.FLOW_DESCRIPTION_ACTION:
			if len(v) >= 1 && v[0] == gtp5gnl.SDF_FILTER_PERMIT {
				f.Action = "permit"
			} else {
				f.Action = "?"
			}
		case gtp5gnl.FLOW_DESCRIPTION_DIRECTION:
			if len(v) >= 1 && v[0] == gtp5gnl.SDF_FILTER_IN {
				f.Dir = "in"
			} else if len(v) >= 1 && v[0] == gtp5gnl.SDF_FILTER_OUT {
				f.Dir = "out"
			} else {
				f.Dir = "?"
			}
		case gtp5gnl.FLOW_DESCRIPTION_PROTOCOL:
			if len(v) >= 1 {
				f.Proto = int(v[0])
			}
		case gtp5gnl.FLOW_DESCRIPTION_SRC_IPV4:
			f.Src = vfAddr(v)
		case gtp5gnl.FLOW_DESCRIPTION_SRC_MASK:
			f.SMask = vfAddr(v)
		case gtp5gnl.FLOW_DESCRIPTION_DEST_IPV4:
			f.Dst = vfAddr(v)
		case gtp5gnl.FLOW_DESCRIPTION_DEST_MASK:
			f.DMask = vfAddr(v)
		case gtp5gnl.FLOW_DESCRIPTION_SRC_PORT, gtp5gnl.FLOW_DESCRIPTION_DEST_PORT:
			ps := [][]int{}
			for i := 0; i+4 <= len(v); i += 4 {
				w := binary.LittleEndian.Uint32(v[i : i+4])
				ps = append(ps, []int{int(w >> 16), int(w & 0xffff)})
			}
			if t == gtp5gnl.FLOW_DESCRIPTION_SRC_PORT {
				f.SPorts = ps
			} else {
				f.DPorts = ps
			}
		}
		adv := (l + 3) &^ 3
		if adv > len(b) {
			break
		}
		b = b[adv:]
	}
	return f
}

func vfIPNet(n *net.IPNet) ([]int, []int) {
	if n == nil {
		return []int{}, []int{}
	}
	return vfAddr(n.IP), vfAddr(n.Mask)
}

func vfSame(a vfFilter, d gtp5gnl.FlowDesc) bool {
	eq := func(x []int, y []byte) bool {
		if len(x) != 4 || len(y) != 4 {
			return false
		}
		for i := range x {
			if x[i] != int(y[i]) {
				return false
			}
		}
		return true
	}
	pe := func(x [][]int, y [][]uint16) bool {
		z := vfPorts(y)
		if len(x) != len(z) {
			return false
		}
		for i := range x {
			if x[i][0] != z[i][0] || x[i][1] != z[i][1] {
				return false
			}
		}
		return true
	}
	return a.Proto == int(d.Proto) && eq(a.Src, d.Src.IP) && eq(a.SMask, d.Src.Mask) && eq(a.Dst, d.Dst.IP) && eq(a.DMask, d.Dst.Mask) &&
		pe(a.SPorts, d.SrcPorts) && pe(a.DPorts, d.DstPorts)
}

func TestVerifFlowDesc(t *testing.T) {
	in, out := os.Getenv("VERIF_IN"), os.Getenv("VERIF_OUT")
	if in == "" || out == "" {
		t.Skip("VERIF_IN / VERIF_OUT not set")
	}
	fi, err := os.Open(in)
	if err != nil {
		t.Fatalf("INFRA: %v", err)
	}
	defer fi.Close()
	fo, err := os.Create(out)
	if err != nil {
		t.Fatalf("INFRA: %v", err)
	}
	defer fo.Close()
	w := bufio.NewWriterSize(fo, 1<<20)
	defer w.Flush()
	enc := json.NewEncoder(w)
	sc := bufio.NewScanner(fi)
	sc.Buffer(make([]byte, 1<<20), 1<<26)
	g := &Gtp5g{}
	n := 0
	for sc.Scan() {
		var v vfFdIn
		if err := json.Unmarshal(sc.Bytes(), &v); err != nil {
			t.Fatalf("INFRA: %v", err)
		}
		o := vfFdOut{ID: v.ID, S: v.S, Swap: v.Swap, Rule: v.Rule, HasRule: len(v.Rule) > 0 && string(v.Rule) != "null",
			Parsed: vfNoFilter(), Packed: vfNoFilter(), Agree: true}
		if !o.HasRule {
			o.Rule = json.RawMessage(`{}`)
		}
		func() {
			defer func() {
				if p := recover(); p != nil {
					o.Panic = fmt.Sprint(p)
				}
			}()
			fd, err := ParseFlowDesc(v.S)
			if err == nil && fd != nil {
				p := vfNoFilter()
				p.Err = false
				p.Action, p.Dir, p.Proto = fd.Action, fd.Dir, int(fd.Proto)
				p.Src, p.SMask = vfIPNet(fd.Src)
				p.Dst, p.DMask = vfIPNet(fd.Dst)
				p.SPorts, p.DPorts = vfPorts(fd.SrcPorts), vfPorts(fd.DstPorts)
				o.Parsed = p
			}
			attrs, err := g.newFlowDesc(v.S, v.Swap)
			if err == nil {
				var al nl.AttrList = attrs
				b := make([]byte, al.Len())
				if _, err := al.Encode(b); err == nil {
					o.Packed = vfWalkFlowDesc(b)
					if d, err := gtp5gnl.DecodeFlowDesc(b); err != nil || !vfSame(o.Packed, d) {
						o.Agree = false
					}
				}
			}
		}()
		if err := enc.Encode(o); err != nil {
			t.Fatalf("INFRA: %v", err)
		}
		n++
	}
	fmt.Printf("VERIF-FLOWDESC vectors=%d\n", n)
}
