//go:build verif

package forwarder

// Verification-only constructors (added by overlay, build tag verif): build the REAL gtp5g driver
// around given netlink connections instead of the kernel's, so that it can run against the
// simulated gtp5g module of the harness.

import (
	"net"

	"github.com/khirono/go-nl"

	"github.com/free5gc/go-gtp5gnl"
	"github.com/free5gc/go-upf/internal/forwarder/buffnetlink"
	"github.com/free5gc/go-upf/internal/forwarder/perio"
	"github.com/free5gc/go-upf/internal/logger"
	"github.com/free5gc/go-upf/internal/report"
	logger_util "github.com/free5gc/util/logger"
)

// VerifNewGtp5g wires a Gtp5g exactly like OpenGtp5g does, except that the netlink connections,
// the link index and the GTP-U socket are supplied by the caller.
func VerifNewGtp5g(mux *nl.Mux, conn, psConn nl.Conner, familyID int, linkIndex int, gtpu *net.UDPConn,
	bsnl *buffnetlink.Server, ps *perio.Server,
) *Gtp5g {
	g := &Gtp5g{
		log: logger.FwderLog.WithField(logger_util.FieldCategory, "Gtp5g"),
	}
	g.mux = mux
	g.link = &Gtp5gLink{mux: mux, link: &gtp5gnl.Link{Name: "upfgtp", Index: linkIndex}, conn: gtpu, log: g.log}
	g.client = &gtp5gnl.Client{Client: nl.NewClient(conn, mux), ID: familyID}
	if psConn != nil {
		g.psClient = &gtp5gnl.Client{Client: nl.NewClient(psConn, mux), ID: familyID}
	}
	g.bsnl = bsnl
	g.ps = ps
	return g
}

// VerifCheckVersion runs the driver's start-up version check.
func (g *Gtp5g) VerifCheckVersion() error { return g.checkVersion() }

// VerifNewFlowDesc exposes the flow-description encoder.
func (g *Gtp5g) VerifNewFlowDesc(s string, swap bool) (nl.AttrList, error) {
	return g.newFlowDesc(s, swap)
}

// VerifPsQueryURR is the query function the driver hands to the periodic server.
func (g *Gtp5g) VerifPsQueryURR(m map[uint64][]uint32) (map[uint64][]report.USAReport, error) {
	return g.psQueryURR(m)
}
