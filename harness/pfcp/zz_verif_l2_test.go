//go:build verif

package pfcp

// L2 conformance executor: the REAL PfcpServer + REAL gtp5g driver + REAL periodic-report server +
// REAL buffering listener + REAL nl.Mux, wired as pkg/app does, on top of the simulated gtp5g
// kernel (internal/zzverif/simk) and simulated SMFs / gNBs on loopback addresses.

import (
	"bufio"
	"encoding/hex"
	"encoding/json"
	"fmt"
	"io"
	"net"
	"os"
	"runtime"
	"strconv"
	"strings"
	"sync"
	"sync/atomic"
	"syscall"
	"testing"
	"time"

	"github.com/khirono/go-nl"
	"github.com/sirupsen/logrus"

	"github.com/free5gc/go-upf/internal/forwarder"
	"github.com/free5gc/go-upf/internal/forwarder/buffnetlink"
	"github.com/free5gc/go-upf/internal/forwarder/perio"
	"github.com/free5gc/go-upf/internal/logger"
	"github.com/free5gc/go-upf/internal/report"
	"github.com/free5gc/go-upf/internal/zzverif/simk"
	"github.com/free5gc/go-upf/pkg/factory"
)

const vf2MarkerSeid = uint64(0x7fffffffffff0001)
const vf2MarkerPeriod = 87654 * time.Hour

// vf2Handler sits between the report producers (buffering listener, periodic server) and the PFCP
// server; it forwards everything and lets the executor know when the producers have drained.
type vf2Handler struct {
	srv    *PfcpServer
	fwd    int64
	marker chan struct{}
}

func (h *vf2Handler) NotifySessReport(sr report.SessReport) {
	if sr.SEID == vf2MarkerSeid {
		h.marker <- struct{}{}
		return
	}
	atomic.AddInt64(&h.fwd, 1)
	h.srv.NotifySessReport(sr)
}

func (h *vf2Handler) PopBufPkt(seid uint64, pdrid uint16) ([]byte, bool) {
	return h.srv.PopBufPkt(seid, pdrid)
}

type vf2Gpdu struct {
	To      string `json:"to"`
	Hex     string `json:"hex"`
	Teid    int    `json:"teid"`
	Ext     bool   `json:"ext"`
	QFI     int    `json:"qfi"`
	Payload string `json:"payload"`
	Bad     string `json:"bad"`
}

type vf2Stack struct {
	k       *simk.Kernel
	mux     *nl.Mux
	conns   []*simk.Conn
	mc      *simk.Conn
	bsnl    *buffnetlink.Server
	ps      *perio.Server
	g       *forwarder.Gtp5g
	gtpu    *net.UDPConn
	gnbs    []*net.UDPConn
	graws   []syscall.RawConn
	h       *vf2Handler
	wg      sync.WaitGroup
	srv     *PfcpServer
	srvwg   sync.WaitGroup
	psmark  chan struct{}
	stopped bool
}

func vf2NewStack(k int, maxrt int, timeout time.Duration) (*vf2Stack, error) {
	s := &vf2Stack{k: simk.New(), psmark: make(chan struct{}, 16)}
	mux, err := nl.NewMux()
	if err != nil {
		return nil, err
	}
	s.mux = mux
	s.wg.Add(1)
	go func() { defer s.wg.Done(); _ = mux.Serve() }()
	c1, err := s.k.NewConn("main")
	if err != nil {
		return nil, err
	}
	c2, err := s.k.NewConn("ps")
	if err != nil {
		return nil, err
	}
	mc, err := s.k.NewMcastConn()
	if err != nil {
		return nil, err
	}
	s.conns, s.mc = []*simk.Conn{c1, c2}, mc
	if s.bsnl, err = buffnetlink.VerifNewServer(mux, mc); err != nil {
		return nil, err
	}
	if s.ps, err = perio.OpenServer(&s.wg); err != nil {
		return nil, err
	}
	upf := fmt.Sprintf("127.%d.0.1", k)
	if s.gtpu, err = net.ListenUDP("udp4", &net.UDPAddr{IP: net.ParseIP(upf), Port: 2152}); err != nil {
		return nil, err
	}
	for i := 1; i <= 3; i++ {
		c, err := net.ListenUDP("udp4", &net.UDPAddr{IP: net.ParseIP(fmt.Sprintf("127.%d.1.%d", k, i)), Port: 2152})
		if err != nil {
			return nil, err
		}
		rc, _ := c.SyscallConn()
		vfBigRcvBuf(rc)
		s.gnbs = append(s.gnbs, c)
		s.graws = append(s.graws, rc)
	}
	s.g = forwarder.VerifNewGtp5g(mux, c1, c2, simk.FamilyID, 7, s.gtpu, s.bsnl, s.ps)
	cfg := &factory.Config{Pfcp: &factory.Pfcp{Addr: upf, NodeID: upf, RetransTimeout: timeout, MaxRetrans: uint8(maxrt)}}
	s.srv = NewPfcpServer(cfg, s.g)
	s.srv.recoveryTime = vfT0.Add(-90 * 24 * time.Hour)
	s.h = &vf2Handler{srv: s.srv, marker: make(chan struct{}, 16)}
	// as pkg/app: driver.HandleReport(server) - with the forwarding handler in between
	s.g.HandleReport(s.h)
	// the periodic server queries through the driver; the marker group only tells that its queue has drained
	s.ps.Handle(s.h, func(m map[uint64][]uint32) (map[uint64][]report.USAReport, error) {
		if _, ok := m[vf2MarkerSeid]; ok {
			s.h.marker <- struct{}{}
			return nil, nil
		}
		return s.g.VerifPsQueryURR(m)
	})
	return s, nil
}

// start the PFCP server (after the hooks are in place)
func (s *vf2Stack) start() { s.srv.Start(&s.srvwg) }

// installPsMarker registers the marker group that tells when the periodic server has drained its queue
func (s *vf2Stack) installPsMarker() {
	s.ps.AddPeriodReportTimer(vf2MarkerSeid, 1, vf2MarkerPeriod)
}

func (s *vf2Stack) psSync(d time.Duration) bool {
	s.ps.VerifTick(vf2MarkerPeriod)
	select {
	case <-s.h.marker:
		return true
	case <-time.After(d):
		return false
	}
}

func (s *vf2Stack) mcSync(d time.Duration) bool {
	if err := s.k.EmitBuffer(vf2MarkerSeid, 0, 0, []byte{0}); err != nil {
		return false
	}
	select {
	case <-s.h.marker:
		return true
	case <-time.After(d):
		return false
	}
}

// stop mirrors UpfApp's shutdown: stop the PFCP server, then close the driver's components
func (s *vf2Stack) stop(d time.Duration) error {
	if s.stopped {
		return nil
	}
	s.stopped = true
	done := make(chan struct{})
	go func() {
		s.srv.Stop()
		for _, c := range s.conns {
			c.Close()
		}
		s.mux.PopHandler(s.mc)
		s.mc.Close()
		s.mux.Close()
		s.ps.Close()
		s.gtpu.Close()
		for _, c := range s.gnbs {
			c.Close()
		}
		s.srvwg.Wait()
		s.wg.Wait()
		close(done)
	}()
	select {
	case <-done:
		return nil
	case <-time.After(d):
		return fmt.Errorf("goroutines still running %v after Stop", d)
	}
}

func (s *vf2Stack) drainGnbs() []vf2Gpdu {
	out := []vf2Gpdu{}
	buf := make([]byte, 65536)
	for i, rc := range s.graws {
		for {
			var nn int
			var rerr error
			err := rc.Read(func(fd uintptr) bool {
				nn, _, rerr = syscall.Recvfrom(int(fd), buf, syscall.MSG_DONTWAIT)
				return true
			})
			if err != nil || rerr != nil || nn < 0 {
				break
			}
			out = append(out, vf2ParseGpdu(fmt.Sprintf("g%d", i+1), buf[:nn]))
		}
	}
	return out
}

// vf2ParseGpdu is an independent reading of TS 29.281 / TS 38.415 (not the repository's encoder)
func vf2ParseGpdu(to string, b []byte) vf2Gpdu {
	g := vf2Gpdu{To: to, Hex: hex.EncodeToString(b), QFI: -1}
	if len(b) < 8 {
		g.Bad = "shorter than the mandatory header"
		return g
	}
	if b[0]>>5 != 1 || b[0]&0x10 == 0 || b[1] != 255 {
		g.Bad = "not a GTPv1 G-PDU"
		return g
	}
	l := int(b[2])<<8 | int(b[3])
	if l != len(b)-8 {
		g.Bad = "length field"
		return g
	}
	g.Teid = int(b[4])<<24 | int(b[5])<<16 | int(b[6])<<8 | int(b[7])
	off := 8
	if b[0]&0x07 != 0 {
		if len(b) < 12 {
			g.Bad = "optional fields truncated"
			return g
		}
		next := b[11]
		off = 12
		for next != 0 {
			if off >= len(b) {
				g.Bad = "extension chain truncated"
				return g
			}
			n := int(b[off]) * 4
			if n == 0 || off+n > len(b) {
				g.Bad = "extension length"
				return g
			}
			if next == 0x85 {
				g.Ext = true
				g.QFI = int(b[off+2] & 0x3f)
				if b[off+1]>>4 != 0 {
					g.Bad = "PDU type"
				}
			}
			next = b[off+n-1]
			off += n
		}
	}
	g.Payload = hex.EncodeToString(b[off:])
	return g
}

// ---------------------------------------------------------------- scripted executor (C13, C15-full, C07)

type vf2Event struct {
	vfEvent
	Pdr    int       `json:"pdr"`
	Action int       `json:"action"`
	N      int       `json:"n"`    // kbuf: number of packets in the burst
	Base   int       `json:"base"` // kbuf: first payload number
	Period int       `json:"period"`
	KReps  []vf2KRep `json:"kreps"`
	// Exp: what the ideal model predicts for this step (paths printed by the model checker), passed through to the trace
	Exp []json.RawMessage `json:"exp"`
}

type vf2KRep struct {
	SRef int    `json:"sref"`
	SEID string `json:"seid"`
	URR  int    `json:"urr"`
	Trig int    `json:"trig"`
	Tok  int    `json:"tok"`
	Vals vfVals `json:"vals"`
}

// vf2KRule is one rule present in the (simulated) kernel's tables
type vf2KRule struct {
	Kind string `json:"kind"`
	SEID string `json:"seid"`
	ID   int    `json:"id"`
}

func vf2KRules(k *simk.Kernel) []vf2KRule {
	out := []vf2KRule{}
	for _, r := range k.Rules() {
		out = append(out, vf2KRule{Kind: r.Kind, SEID: strconv.FormatUint(r.SEID, 10), ID: int(r.ID)})
	}
	return out
}

type vf2Q struct {
	SEID string `json:"seid"`
	PDR  int    `json:"pdr"`
	Len  int    `json:"len"`
}

type vf2Line struct {
	Tr      string     `json:"tr"`
	I       int        `json:"i"`
	E       vf2Event   `json:"e"`
	Calls   []vfCall   `json:"calls"`
	Gets    int        `json:"gets"`
	MQ      [][]string `json:"mq"`  // OIDs ("seid/urr") of every multi-URR query, batch by batch
	MQR     []vf2MqRep `json:"mqr"` // what the kernel answered to them
	Out     []vfOut    `json:"out"`
	Gpdu    []vf2Gpdu  `json:"gpdu"`
	Snap    vfSnap     `json:"snap"`
	Queues  []vf2Q     `json:"queues"`
	Tickers int        `json:"tickers"`
	KRules  []vf2KRule `json:"krules"` // the kernel's rule tables after the step
	Pkts    []string   `json:"pkts"`   // kbuf: payloads of the burst, in emission order
	Fatal   string     `json:"fatal"`
}

func vf2Payload(k int) []byte {
	// a distinguishable "IP packet": 20-byte header stub + number
	// lengths 28..31: netlink pads attribute values to 4 octets - the padding is not part of the packet
	n := 28 + k%4
	switch {
	case k%13 == 5:
		n = 2030 + k%7 // around 2 KiB
	case k%53 == 7:
		n = 9000 + k%3 // a jumbo frame
	case k%97 == 11:
		n = 20 // a bare IPv4 header
	}
	b := make([]byte, n)
	b[0] = 0x45
	if n >= 28 {
		for i := 0; i < 8; i++ {
			b[20+i] = byte(uint64(k) >> (8 * (7 - i)))
		}
	} else {
		// the number goes into identification / addresses of the header itself
		for i := 0; i < 8; i++ {
			b[12+i] = byte(uint64(k) >> (8 * (7 - i)))
		}
	}
	b[n-1] ^= 0xa5 // the last octet is not zero: a lost tail shows
	return b
}

// vf2Tickers counts the period-ticker goroutines of perio.Server once they are at rest. A goroutine that was
// just created (its frame is still the compiler's go-wrapper) or was just told to stop (runnable until it
// returns) is in transit: the count is taken when none is runnable or running, so that it does not depend on
// the scheduler.
func vf2Tickers() int {
	deadline := time.Now().Add(10 * time.Second)
	for {
		buf := make([]byte, 4<<20)
		n := runtime.Stack(buf, true)
		total, moving := 0, 0
		for _, g := range strings.Split(string(buf[:n]), "\n\n") {
			if !strings.Contains(g, "perio.(*PERIOGroup).newTicker.") {
				continue
			}
			total++
			hdr := g
			if k := strings.IndexByte(g, '\n'); k >= 0 {
				hdr = g[:k]
			}
			if strings.Contains(hdr, "[runnable") || strings.Contains(hdr, "[running") {
				moving++
			}
		}
		if moving == 0 || time.Now().After(deadline) {
			return total
		}
		time.Sleep(200 * time.Microsecond)
	}
}

// vf2MqRep: one report of a multi-report query, as the kernel measured it
type vf2MqRep struct {
	SEID string `json:"seid"`
	URR  int    `json:"urr"`
	TV   string `json:"tv"`
}

func vf2MqReps(log []simk.Req) []vf2MqRep {
	out := []vf2MqRep{}
	for _, r := range log {
		if r.Op == "mquery" {
			for _, rp := range r.Reps {
				out = append(out, vf2MqRep{SEID: strconv.FormatUint(rp.SEID, 10), URR: int(rp.URR), TV: vf2Vals(rp).TV})
			}
		}
	}
	return out
}

func vf2Calls(log []simk.Req) ([]vfCall, int, [][]string) {
	calls := []vfCall{}
	gets := 0
	mq := [][]string{}
	for _, r := range log {
		switch r.Op {
		case "create", "update", "remove", "query":
			c := vfCall{Op: r.Op, Kind: r.Kind, SEID: strconv.FormatUint(r.SEID, 10), ID: int(r.ID), Res: "ok", Reps: []vfRep{}}
			if r.Errno != 0 {
				c.Res = "err"
			}
			for _, rp := range r.Reps {
				c.Reps = append(c.Reps, vfRep{K: "usar", URR: int(rp.URR), Trig: int(rp.Trig), Tok: rp.Tok, Vals: vf2Vals(rp)})
			}
			calls = append(calls, c)
		case "get":
			gets++
		case "mquery":
			b := []string{}
			for _, o := range r.OIDs {
				b = append(b, fmt.Sprintf("%d/%d", o[0], o[1]))
			}
			mq = append(mq, b)
		}
	}
	return calls, gets, mq
}

func vf2Vals(rp simk.Report) vfVals {
	u := func(x uint64) string { return strconv.FormatUint(x, 10) }
	return vfVals{TV: u(rp.Vol[0]), UV: u(rp.Vol[1]), DV: u(rp.Vol[2]), TP: u(rp.Vol[3]), UP: u(rp.Vol[4]), DP: u(rp.Vol[5]),
		ST: strconv.FormatInt(rp.Start/int64(time.Second), 10), ET: strconv.FormatInt(rp.End/int64(time.Second), 10), DU: "-"}
}

func TestVerifL2(t *testing.T) {
	in, out := os.Getenv("VERIF_IN"), os.Getenv("VERIF_OUT")
	if in == "" || out == "" {
		t.Skip("VERIF_IN / VERIF_OUT not set")
	}
	k, _ := strconv.Atoi(os.Getenv("VERIF_K"))
	if k == 0 {
		k = 78
	}
	logger.Log.SetLevel(logrus.FatalLevel)
	logger.Log.SetOutput(io.Discard)
	if os.Getenv("VERIF_LOG") != "" {
		logger.Log.SetLevel(6)
		logger.Log.SetOutput(os.Stderr)
	}
	vfGnbIP = func(i int) string { return fmt.Sprintf("127.%d.1.%d", k, i) }
	nw, err := vfNewNet(k)
	if err != nil {
		t.Fatalf("INFRA: %v", err)
	}
	defer nw.close()
	x := &vfExec{net: nw}
	x.gate = &vfGate{net: nw}
	x.gate.cond = sync.NewCond(&x.gate.mu)
	var qmu sync.Mutex
	var queues []vf2Q
	VerifIdle = func(s *PfcpServer) {
		if s == x.gate.srv {
			qs := []vf2Q{}
			for i, se := range s.lnode.sess {
				if se == nil {
					continue
				}
				for pdr, q := range se.q {
					qs = append(qs, vf2Q{SEID: strconv.Itoa(i + 1), PDR: int(pdr), Len: len(q)})
				}
			}
			qmu.Lock()
			queues = qs
			qmu.Unlock()
		}
		x.gate.idle(s)
	}
	logger.Log.AddHook(vfFatalHook{x})
	logger.Log.ExitFunc = func(code int) {
		x.noteFatal(fmt.Sprintf("exit(%d) via logger (recovered panic in the event loop)", code))
	}

	fi, err := os.Open(in)
	if err != nil {
		t.Fatalf("INFRA: %v", err)
	}
	defer fi.Close()
	fo, err := os.Create(out)
	if err != nil {
		t.Fatalf("INFRA: %v", err)
	}
	defer fo.Close()
	w := bufio.NewWriterSize(fo, 1<<20)
	defer w.Flush()
	enc := json.NewEncoder(w)
	sc := bufio.NewScanner(fi)
	sc.Buffer(make([]byte, 1<<20), 1<<28)
	nscripts, nevents := 0, 0
	for sc.Scan() {
		if len(strings.TrimSpace(sc.Text())) == 0 {
			continue
		}
		var s struct {
			ID     string     `json:"id"`
			Events []vf2Event `json:"events"`
		}
		if err := json.Unmarshal(sc.Bytes(), &s); err != nil {
			t.Fatalf("INFRA: bad script line: %v", err)
		}
		if len(s.Events) == 0 || s.Events[0].T != "init" {
			t.Fatalf("INFRA: script %s does not start with init", s.ID)
		}
		nscripts++
		init := s.Events[0]
		vfNorm(&init.vfEvent)
		init.Exp = []json.RawMessage{}
		if init.KReps == nil {
			init.KReps = []vf2KRep{}
		}
		x.takeFatal()
		st, err := vf2NewStack(k, init.MaxRt, time.Hour)
		if err != nil {
			t.Fatalf("INFRA: %v", err)
		}
		st.installPsMarker()
		x.gate.mu.Lock()
		x.gate.srv = st.srv
		x.gate.n = 0
		x.gate.mu.Unlock()
		st.start()
		if _, ok := x.gate.waitFor(1, 10*time.Second); !ok {
			t.Fatalf("INFRA: server did not reach its loop (address in use?)")
		}
		r := &vfRun{srv: st.srv, twin: vfNewTwin(&x.tok)}
		nw.drain()
		st.k.TakeLog()
		_ = enc.Encode(vf2Line{Tr: s.ID, I: 0, E: init, Calls: []vfCall{}, MQ: [][]string{}, MQR: []vf2MqRep{}, Out: []vfOut{}, Gpdu: []vf2Gpdu{}, Queues: []vf2Q{}, KRules: []vf2KRule{},
			Snap: vfSnap{Rx: []vfRx{}, Tx: []vfTx{}, Free: []string{}, Live: []string{}, Nodes: []string{}}, Tickers: vf2Tickers() - 1, Pkts: []string{}})
		dead := false
		for i := 1; i < len(s.Events) && !dead; i++ {
			e := s.Events[i]
			vfNorm(&e.vfEvent)
			if e.KReps == nil {
				e.KReps = []vf2KRep{}
			}
			if e.Exp == nil {
				e.Exp = []json.RawMessage{}
			}
			r.resolve(&e.vfEvent)
			n0 := x.gate.count()
			f0 := atomic.LoadInt64(&st.h.fwd)
			turns := uint64(1)
			pkts := []string{}
			var early [][2]string
			switch e.T {
			case "kbuf":
				seid, _ := strconv.ParseUint(e.SEID, 10, 64)
				n := e.N
				if n <= 0 {
					n = 1
				}
				for j := 0; j < n; j++ {
					pl := vf2Payload(e.Base + j)
					pkts = append(pkts, hex.EncodeToString(pl))
					if err := st.k.EmitBuffer(seid, uint16(e.Pdr), uint16(e.Action), pl); err != nil {
						t.Fatalf("INFRA: %v", err)
					}
					if j%100 == 99 { // keep the socketpair from overflowing
						if !st.mcSync(20 * time.Second) {
							t.Fatalf("INFRA: buffering listener did not drain")
						}
						early = append(early, nw.drain()...)
					}
				}
				if !st.mcSync(20 * time.Second) {
					t.Fatalf("INFRA: buffering listener did not drain")
				}
				turns = uint64(atomic.LoadInt64(&st.h.fwd) - f0)
			case "krep":
				items := [][3]uint64{}
				for j := range e.KReps {
					kr := &e.KReps[j]
					if kr.SRef > 0 && kr.SRef <= len(r.seids) {
						kr.SEID = r.seids[kr.SRef-1]
					}
					sd, _ := strconv.ParseUint(kr.SEID, 10, 64)
					items = append(items, [3]uint64{sd, uint64(kr.URR), uint64(kr.Trig)})
				}
				reps, err := st.k.EmitReports(items)
				if err != nil {
					t.Fatalf("INFRA: %v", err)
				}
				for j := range reps {
					e.KReps[j].Tok, e.KReps[j].Vals = reps[j].Tok, vf2Vals(reps[j])
				}
				if !st.mcSync(20 * time.Second) {
					t.Fatalf("INFRA: buffering listener did not drain")
				}
				turns = uint64(atomic.LoadInt64(&st.h.fwd) - f0)
			case "tick":
				st.ps.VerifTick(time.Duration(e.Period) * time.Second)
				if !st.psSync(30 * time.Second) {
					t.Fatalf("INFRA: periodic server did not drain")
				}
				turns = uint64(atomic.LoadInt64(&st.h.fwd) - f0)
			case "raw", "mut":
				var b []byte
				if e.T == "mut" {
					var err error
					if b, err = x.buildMut(&e.vfEvent); err != nil {
						t.Fatalf("INFRA: %v", err)
					}
				} else {
					b, _ = hex.DecodeString(e.Raw)
				}
				if _, err := nw.conns[e.Peer].WriteToUDP(b, &net.UDPAddr{IP: net.ParseIP(nw.upf), Port: 8805}); err != nil {
					t.Fatalf("INFRA: %v", err)
				}
				if len(b) == 0 {
					nw.barrier(func() bool { return vfLoopReturned(st.srv) || x.peekFatal() })
				}
			case "report":
				seid, _ := strconv.ParseUint(e.SEID, 10, 64)
				sr := report.SessReport{SEID: seid}
				for j := range e.Reports {
					rp := &e.Reports[j]
					switch rp.K {
					case "usar":
						u, rec := r.twin.newReport(rp.URR, uint32(rp.Trig))
						rp.Tok, rp.Vals = rec.Tok, rec.Vals
						sr.Reports = append(sr.Reports, u)
					case "dldr":
						pkt, _ := hex.DecodeString(rp.Pkt)
						sr.Reports = append(sr.Reports, report.DLDReport{PDRID: uint16(rp.PDR), Action: uint16(rp.Action), BufPkt: pkt})
					}
				}
				st.srv.NotifySessReport(sr)
			case "timeout":
				tt := RX
				if e.TT == "tx" {
					tt = TX
				}
				st.srv.NotifyTransTimeout(tt, nw.keyOf(e.TPeer, strconv.Itoa(e.TSeq)))
			default:
				b, err := x.build(&e.vfEvent)
				if err != nil {
					t.Fatalf("INFRA: script %s event %d: %v", s.ID, i, err)
				}
				if _, err := nw.conns[e.Peer].WriteToUDP(b, &net.UDPAddr{IP: net.ParseIP(nw.upf), Port: 8805}); err != nil {
					t.Fatalf("INFRA: %v", err)
				}
			}
			var snap vfSnap
			ok := turns == 0
			for t0 := time.Now(); time.Since(t0) < 20*time.Second && !ok; {
				snap, ok = x.gate.waitFor(n0+turns, 20*time.Millisecond)
				if !ok && x.peekFatal() {
					time.Sleep(20 * time.Millisecond)
					break
				}
				if !ok && vfLoopReturned(st.srv) {
					break
				}
			}
			if turns == 0 {
				snap, _ = x.gate.waitFor(n0, time.Second)
			}
			ln := vf2Line{Tr: s.ID, I: i, E: e, Pkts: pkts, Fatal: x.takeFatal()}
			if !ok && ln.Fatal == "" && vfLoopReturned(st.srv) {
				ln.Fatal = "the PFCP event loop returned without Stop: the UPF stopped serving"
			}
			if !ok && ln.Fatal == "" {
				w.Flush()
				t.Fatalf("INFRA: script %s event %d (%s) not consumed by the loop within 20 s", s.ID, i, e.T)
			}
			if ln.Fatal == "" {
				// rule changes post timer events to the periodic server: let it drain (deterministic ticks later)
				if !st.psSync(30 * time.Second) {
					t.Fatalf("INFRA: periodic server did not drain")
				}
			}
			ln.Snap = snap
			klog := st.k.TakeLog()
			ln.Calls, ln.Gets, ln.MQ = vf2Calls(klog)
			ln.MQR = vf2MqReps(klog)
			ln.KRules = vf2KRules(st.k)
			ln.Out = []vfOut{}
			for _, d := range append(early, nw.drain()...) {
				o := x.abstract(d[0], []byte(d[1]))
				ln.Out = append(ln.Out, o)
				if o.MT == 56 {
					r.srrs = append(r.srrs, o)
				}
				if e.T == "est" && o.MT == 51 && o.FSEID != "" {
					r.seids = append(r.seids, o.FSEID)
				}
			}
			ln.Gpdu = st.drainGnbs()
			qmu.Lock()
			ln.Queues = queues
			qmu.Unlock()
			if ln.Queues == nil {
				ln.Queues = []vf2Q{}
			}
			ln.Tickers = vf2Tickers() - 1
			nevents++
			if err := enc.Encode(ln); err != nil {
				t.Fatalf("INFRA: %v", err)
			}
			if ln.Fatal != "" {
				dead = true
			}
		}
		// closing line: what is left after Stop (timer goroutines must be gone, everything must have terminated)
		serr := st.stop(10 * time.Second)
		if !dead {
			fin := vf2Line{Tr: s.ID, I: len(s.Events), Calls: []vfCall{}, MQ: [][]string{}, MQR: []vf2MqRep{}, Out: []vfOut{}, Gpdu: []vf2Gpdu{}, Queues: []vf2Q{}, KRules: []vf2KRule{},
				Snap: vfSnap{Rx: []vfRx{}, Tx: []vfTx{}, Free: []string{}, Live: []string{}, Nodes: []string{}}, Pkts: []string{}, Tickers: vf2Tickers()}
			fin.E = init
			fin.E.T = "stop"
			if serr != nil {
				fin.E.Tag = serr.Error()
			}
			_ = enc.Encode(fin)
		}
		if serr != nil {
			// leaked goroutines would distort the following scripts: end this process here (the trace so far is judged)
			w.Flush()
			fmt.Printf("VERIF-L2 stopped early after script %s: %v\n", s.ID, serr)
			return
		}
	}
	fmt.Printf("VERIF-L2 scripts=%d events=%d\n", nscripts, nevents)
}
