//go:build verif

package pfcp

// L1 conformance executor (see /verif/DESIGN.md §4).
//
// This file is NOT part of free5gc/go-upf.  It is added to package pfcp by
// `go test -c -tags verif -overlay ...` from /verif/harness and drives the REAL
// PfcpServer (real main loop, real receiver goroutine, real UDP socket) with
// abstract event scripts produced by TLC or by the seeded generators, against a
// model data plane (the executable twin of spec/DataPlane part of Mon.tla).
// It records what the server did as ND-JSON; TLC judges the record.

import (
	"bufio"
	"encoding/hex"
	"encoding/json"
	"fmt"
	"io"
	"net"
	"os"
	"sort"
	"strconv"
	"strings"
	"sync"
	"syscall"
	"testing"
	"time"

	"github.com/sirupsen/logrus"
	"github.com/wmnsk/go-pfcp/ie"
	"github.com/wmnsk/go-pfcp/message"

	"github.com/free5gc/go-upf/internal/logger"
	"github.com/free5gc/go-upf/internal/report"
	"github.com/free5gc/go-upf/pkg/factory"
)

// ---------------------------------------------------------------- script / trace schema

type vfOp struct {
	Op      string `json:"op"`   // create update remove query
	Kind    string `json:"kind"` // pdr far qer urr bar
	ID      int    `json:"id"`
	URRs    []int  `json:"urrs"`    // PDR: URR ID children
	HasURRs bool   `json:"hasurrs"` // PDR: whether URR ID children are given at all (informational)
	UEIP    bool   `json:"ueip"`    // create PDR: PDI carries a UE IP address
	Far     int    `json:"far"`     // PDR: FAR ID child (0 = none)
	Meth    int    `json:"meth"`    // URR: measurement method octet (-1 = IE absent)
	MInfo   int    `json:"minfo"`   // URR: measurement information octet (-1 = IE absent)
	// used by the full-stack (L2) scripts; zero values give the L1 behaviour
	AA     int    `json:"aa"`     // FAR: apply-action word (0: create -> FORW, update -> IE absent)
	Teid   int    `json:"teid"`   // FAR: outer header creation TEID
	Gnb    int    `json:"gnb"`    // FAR: outer header creation peer = simulated gNB i (0: no forwarding parameters)
	Qers   []int  `json:"qers"`   // PDR: QER ID children
	Qfi    int    `json:"qfi"`    // QER: QFI (0: IE absent)
	Perio  bool   `json:"perio"`  // URR: periodic reporting trigger
	Period int    `json:"period"` // URR: measurement period in seconds
	Sdf    string `json:"sdf"`    // PDR: flow description of an SDF filter in the PDI ("" = none)
}

type vfRep struct {
	K      string `json:"k"` // usar | dldr
	URR    int    `json:"urr"`
	Trig   int    `json:"trig"` // usage-report-trigger flags as delivered by the producer
	PDR    int    `json:"pdr"`
	Action int    `json:"action"`
	Pkt    string `json:"pkt"` // hex
	Tok    int    `json:"tok"`
	Vals   vfVals `json:"vals"`
}

type vfVals struct {
	TV string `json:"tv"`
	UV string `json:"uv"`
	DV string `json:"dv"`
	TP string `json:"tp"`
	UP string `json:"up"`
	DP string `json:"dp"`
	ST string `json:"st"`
	ET string `json:"et"`
	DU string `json:"du"`
}

type vfEvent struct {
	T       string  `json:"t"`
	Peer    string  `json:"peer"`
	Seq     int     `json:"seq"`
	Node    string  `json:"node"`
	CP      string  `json:"cp"`
	SEID    string  `json:"seid"`
	SRef    int     `json:"sref"`
	RRef    int     `json:"rref"`
	Ops     []vfOp  `json:"ops"`
	Faults  []int   `json:"faults"`
	Faults2 []int   `json:"faults2"` // create calls that return an error AFTER having installed the rule
	Reports []vfRep `json:"reports"`
	TT      string  `json:"tt"`
	TPeer   string  `json:"tpeer"`
	TSeq    int     `json:"tseq"`
	Raw     string  `json:"raw"`
	MaxRt   int     `json:"maxrt"`  // init only
	TxSeq0  string  `json:"txseq0"` // init only
	Lax     bool    `json:"lax"`    // init only: the data plane still answers a query for a URR it has removed
	Rts     int     `json:"rts"`    // assoc: the peer's recovery time stamp, seconds relative to the usual one
	Tag     string  `json:"tag"`    // free text from the generator (history classes)
	Mut     vfMut   `json:"mut"`    // t = "mut": the valid message described by Base is built, mutated and sent
	Base    string  `json:"mbase"`  // t = "mut": type of the valid message (hb assoc est mod del rptrsp)
}

// vfMut is one structure-aware mutation of a valid PFCP message
type vfMut struct {
	Op string `json:"op"` // trunc hdrlen iel iet drop dup byte seid mt ver ieb rand none
	K  int    `json:"k"`  // index of the IE (pre-order, nested IEs included) / byte offset / length
	V  int    `json:"v"`  // value
	S  string `json:"s"`  // seid: decimal 64-bit value
}

type vfScript struct {
	ID     string    `json:"id"`
	Events []vfEvent `json:"events"`
}

type vfCall struct {
	Op   string  `json:"op"`
	Kind string  `json:"kind"`
	SEID string  `json:"seid"`
	ID   int     `json:"id"`
	Res  string  `json:"res"`
	Reps []vfRep `json:"reps"`
}

type vfOutRep struct {
	URR  int    `json:"urr"`
	Seqn int    `json:"seqn"`
	Trig int    `json:"trig"`
	VF   int    `json:"vf"`  // volume-measurement flags, -1 = IE absent
	Dur  bool   `json:"dur"` // duration-measurement IE present
	Vals vfVals `json:"vals"`
}

type vfOut struct {
	To      string     `json:"to"`
	MT      int        `json:"mt"`
	Seq     int        `json:"seq"`
	HasSEID bool       `json:"hasseid"`
	SEID    string     `json:"seid"`
	Cause   int        `json:"cause"`
	Node    string     `json:"node"`
	FSEID   string     `json:"fseid"`
	RTS     string     `json:"rts"`
	Created []int      `json:"created"`
	Rpts    []vfOutRep `json:"rpts"`
	DLDR    []int      `json:"dldr"`
	RType   int        `json:"rtype"`
	Hex     string     `json:"hex"`
	Bad     string     `json:"bad"` // non-empty: datagram could not be decoded
}

type vfRx struct {
	K   string `json:"k"`
	Rsp bool   `json:"rsp"`
}

type vfTx struct {
	K    string `json:"k"`
	Peer string `json:"peer"`
	Wire int    `json:"wire"`
	N    int    `json:"n"`
}

type vfSnap struct {
	Rx    []vfRx   `json:"rx"`
	Tx    []vfTx   `json:"tx"`
	TxSeq string   `json:"txseq"`
	Free  []string `json:"free"`
	Live  []string `json:"live"`
	Nodes []string `json:"nodes"`
}

type vfLine struct {
	Tr    string   `json:"tr"`
	I     int      `json:"i"`
	E     vfEvent  `json:"e"`
	Calls []vfCall `json:"calls"`
	Out   []vfOut  `json:"out"`
	Snap  vfSnap   `json:"snap"`
	Fatal string   `json:"fatal"`
}

// ---------------------------------------------------------------- model data plane (twin of DataPlane in Mon.tla)

type vfKey struct {
	seid uint64
	kind string
	id   int
}

type vfTwin struct {
	mu     sync.Mutex
	rules  map[vfKey]bool
	calls  []vfCall
	nstep  int          // ordinal of data-plane calls in the current step
	faults map[int]bool // ordinals (within the step) of create/update/query calls that fail
	fault2 map[int]bool // ordinals of create calls that fail after having taken effect (e.g. lost acknowledgement)
	tok    *int
	h      report.Handler
	// lax: a permissive data plane - a query for a URR that was installed and has been removed is answered
	// with a report (res "lax") instead of "no such rule"; what the UPF forwards must not depend on that
	lax  bool
	gone map[vfKey]bool
}

func vfNewTwin(tok *int) *vfTwin {
	return &vfTwin{rules: map[vfKey]bool{}, faults: map[int]bool{}, fault2: map[int]bool{}, tok: tok, gone: map[vfKey]bool{}}
}

var vfT0 = time.Date(2024, 1, 1, 0, 0, 0, 0, time.UTC)

// vfMeasure is the deterministic "measurement" for token k; the values spread
// over the 64-bit range so that truncation or cross-wiring shows.
func vfMeasure(k int) (report.VolumeMeasure, report.DurationMeasure, time.Time, time.Time) {
	u := uint64(k)
	vm := report.VolumeMeasure{
		TotalVolume:    0x8000000000000000 | u*0x0001000100010001,
		UplinkVolume:   0x4000000000000000 | u*0x0000000100000001 + 1,
		DownlinkVolume: 0x2000000000000000 | u*0x0000010000000100 + 2,
		TotalPktNum:    0x1000000000000000 | u*3 + 3,
		UplinkPktNum:   0x0800000000000000 | u*5 + 4,
		DownlinkPktNum: 0xffffffffffffffff - u*7,
	}
	if k%4 == 0 {
		// a measurement without a single packet counted
		vm.TotalPktNum, vm.UplinkPktNum, vm.DownlinkPktNum = 0, 0, 0
	}
	dm := report.DurationMeasure{DurationValue: uint64(time.Duration(1000+k) * time.Second)}
	st := vfT0.Add(time.Duration(2*k) * time.Second)
	et := vfT0.Add(time.Duration(2*k+1) * time.Second)
	if k%5 == 0 {
		// the data plane's clock went backwards: the end stamp lies before the start stamp - "exactly as measured" all the same
		et = st.Add(-3 * time.Second)
	}
	return vm, dm, st, et
}

func vfValsOf(vm *report.VolumeMeasure, du string, st, et string) vfVals {
	u := func(x uint64) string { return strconv.FormatUint(x, 10) }
	v := vfVals{TV: "-", UV: "-", DV: "-", TP: "-", UP: "-", DP: "-", ST: st, ET: et, DU: du}
	if vm != nil {
		v.TV, v.UV, v.DV, v.TP, v.UP, v.DP = u(vm.TotalVolume), u(vm.UplinkVolume), u(vm.DownlinkVolume),
			u(vm.TotalPktNum), u(vm.UplinkPktNum), u(vm.DownlinkPktNum)
	}
	return v
}

func (tw *vfTwin) newReport(urr int, trig uint32) (report.USAReport, vfRep) {
	*tw.tok++
	k := *tw.tok
	vm, dm, st, et := vfMeasure(k)
	r := report.USAReport{
		URRID:        uint32(urr),
		VolumMeasure: vm,
		DuratMeasure: dm,
		StartTime:    st,
		EndTime:      et,
	}
	r.USARTrigger.Flags = trig
	rep := vfRep{K: "usar", URR: urr, Trig: int(trig), Tok: k,
		Vals: vfValsOf(&vm, strconv.FormatInt(int64(time.Duration(dm.DurationValue)/time.Second), 10),
			strconv.FormatInt(st.Unix(), 10), strconv.FormatInt(et.Unix(), 10))}
	return r, rep
}

// do performs one data-plane call. Faults apply to create / update / query only
// (the quantifier of C01); remove fails only with "no such rule".
func (tw *vfTwin) do(op, kind string, seid uint64, id int) ([]report.USAReport, error) {
	tw.mu.Lock()
	defer tw.mu.Unlock()
	ord := tw.nstep
	tw.nstep++
	key := vfKey{seid, kind, id}
	c := vfCall{Op: op, Kind: kind, SEID: strconv.FormatUint(seid, 10), ID: id, Res: "ok", Reps: []vfRep{}}
	var err error
	var reps []report.USAReport
	injected := op != "remove" && tw.faults[ord]
	switch {
	case injected:
		err = fmt.Errorf("twin: injected fault")
	case op == "create":
		if tw.rules[key] {
			err = fmt.Errorf("twin: EEXIST")
		} else {
			tw.rules[key] = true
			if tw.fault2[ord] {
				err = fmt.Errorf("twin: injected fault after the rule was installed")
				c.Res = "err+"
			}
		}
	default:
		if !tw.rules[key] {
			if tw.lax && op == "query" && kind == "urr" && tw.gone[key] {
				c.Res = "lax"
			} else {
				err = fmt.Errorf("twin: ENOENT")
			}
		} else if op == "remove" {
			delete(tw.rules, key)
			tw.gone[key] = true
		}
	}
	if op == "create" && tw.rules[key] {
		delete(tw.gone, key)
	}
	if err == nil && kind == "urr" && (op == "remove" || op == "query") {
		// the data plane may report a cause of its own with the measurement (volume threshold, none, time threshold):
		// the UPF adds its mark (immediate / termination) and must keep the cause
		r, rep := tw.newReport(id, []uint32{2, 0, 4}[id%3])
		reps = append(reps, r)
		c.Reps = append(c.Reps, rep)
	}
	if err != nil && c.Res == "ok" {
		c.Res = "err"
	}
	tw.calls = append(tw.calls, c)
	return reps, err
}

func (tw *vfTwin) take() []vfCall {
	tw.mu.Lock()
	defer tw.mu.Unlock()
	c := tw.calls
	tw.calls = nil
	tw.nstep = 0
	if c == nil {
		c = []vfCall{}
	}
	return c
}

func (tw *vfTwin) setFaults(f, f2 []int) {
	tw.mu.Lock()
	defer tw.mu.Unlock()
	tw.faults = map[int]bool{}
	for _, x := range f {
		tw.faults[x] = true
	}
	tw.fault2 = map[int]bool{}
	for _, x := range f2 {
		tw.fault2[x] = true
	}
}

func vfID16(f func() (uint16, error)) int { v, _ := f(); return int(v) }
func vfID32(f func() (uint32, error)) int { v, _ := f(); return int(v) }
func vfID8(f func() (uint8, error)) int   { v, _ := f(); return int(v) }

func (tw *vfTwin) Close() {}
func (tw *vfTwin) CreatePDR(s uint64, i *ie.IE) error {
	_, e := tw.do("create", "pdr", s, vfID16(i.PDRID))
	return e
}
func (tw *vfTwin) UpdatePDR(s uint64, i *ie.IE) error {
	_, e := tw.do("update", "pdr", s, vfID16(i.PDRID))
	return e
}
func (tw *vfTwin) RemovePDR(s uint64, i *ie.IE) error {
	_, e := tw.do("remove", "pdr", s, vfID16(i.PDRID))
	return e
}
func (tw *vfTwin) CreateFAR(s uint64, i *ie.IE) error {
	_, e := tw.do("create", "far", s, vfID32(i.FARID))
	return e
}
func (tw *vfTwin) UpdateFAR(s uint64, i *ie.IE) error {
	_, e := tw.do("update", "far", s, vfID32(i.FARID))
	return e
}
func (tw *vfTwin) RemoveFAR(s uint64, i *ie.IE) error {
	_, e := tw.do("remove", "far", s, vfID32(i.FARID))
	return e
}
func (tw *vfTwin) CreateQER(s uint64, i *ie.IE) error {
	_, e := tw.do("create", "qer", s, vfID32(i.QERID))
	return e
}
func (tw *vfTwin) UpdateQER(s uint64, i *ie.IE) error {
	_, e := tw.do("update", "qer", s, vfID32(i.QERID))
	return e
}
func (tw *vfTwin) RemoveQER(s uint64, i *ie.IE) error {
	_, e := tw.do("remove", "qer", s, vfID32(i.QERID))
	return e
}
func (tw *vfTwin) CreateURR(s uint64, i *ie.IE) error {
	_, e := tw.do("create", "urr", s, vfID32(i.URRID))
	return e
}
func (tw *vfTwin) UpdateURR(s uint64, i *ie.IE) ([]report.USAReport, error) {
	return tw.do("update", "urr", s, vfID32(i.URRID))
}
func (tw *vfTwin) RemoveURR(s uint64, i *ie.IE) ([]report.USAReport, error) {
	return tw.do("remove", "urr", s, vfID32(i.URRID))
}
func (tw *vfTwin) QueryURR(s uint64, id uint32) ([]report.USAReport, error) {
	return tw.do("query", "urr", s, int(id))
}
func (tw *vfTwin) CreateBAR(s uint64, i *ie.IE) error {
	_, e := tw.do("create", "bar", s, vfID8(i.BARID))
	return e
}
func (tw *vfTwin) UpdateBAR(s uint64, i *ie.IE) error {
	_, e := tw.do("update", "bar", s, vfID8(i.BARID))
	return e
}
func (tw *vfTwin) RemoveBAR(s uint64, i *ie.IE) error {
	_, e := tw.do("remove", "bar", s, vfID8(i.BARID))
	return e
}
func (tw *vfTwin) HandleReport(h report.Handler) { tw.h = h }

// ---------------------------------------------------------------- network (simulated SMFs)

type vfNet struct {
	k     int
	upf   string // 127.k.0.1
	peers []string
	conns map[string]*net.UDPConn
	raws  map[string]syscall.RawConn
	names map[string]string // "ip:port" -> peer name
	addrs map[string]*net.UDPAddr
	nodes map[string]string // node name -> ip
	bar   *net.UDPConn      // barrier socket (not among the peers: drain() never reads it)
	nbar  uint32
}

// peers p1..p4 sit on 127.k.0.11.. :8805 (so that reports addressed to
// "<node id>:8805" arrive at the same socket); q1, q2 share the IP of p1, p2 but
// use port 9805 (same host, different source address).
func vfNewNet(k int) (*vfNet, error) {
	n := &vfNet{k: k, upf: fmt.Sprintf("127.%d.0.1", k), conns: map[string]*net.UDPConn{},
		raws: map[string]syscall.RawConn{}, names: map[string]string{}, addrs: map[string]*net.UDPAddr{},
		nodes: map[string]string{}}
	add := func(name, ip string, port int) error {
		a := &net.UDPAddr{IP: net.ParseIP(ip), Port: port}
		c, err := net.ListenUDP("udp4", a)
		if err != nil {
			return err
		}
		rc, err := c.SyscallConn()
		if err != nil {
			return err
		}
		vfBigRcvBuf(rc)
		n.peers = append(n.peers, name)
		n.conns[name] = c
		n.raws[name] = rc
		n.names[a.String()] = name
		n.addrs[name] = a
		return nil
	}
	for i := 1; i <= 4; i++ {
		ip := fmt.Sprintf("127.%d.0.%d", k, 10+i)
		if err := add(fmt.Sprintf("p%d", i), ip, 8805); err != nil {
			return nil, err
		}
		n.nodes[fmt.Sprintf("n%d", i)] = ip
	}
	for i := 1; i <= 2; i++ {
		if err := add(fmt.Sprintf("q%d", i), fmt.Sprintf("127.%d.0.%d", k, 10+i), 9805); err != nil {
			return nil, err
		}
	}
	// p5 / n5: an address that has p3's address as a textual prefix (127.k.0.13 / 127.k.0.130)
	if err := add("p5", fmt.Sprintf("127.%d.0.130", k), 8805); err != nil {
		return nil, err
	}
	n.nodes["n5"] = fmt.Sprintf("127.%d.0.130", k)
	// n9: a node id nobody listens on (reports to it vanish)
	n.nodes["n9"] = fmt.Sprintf("127.%d.0.99", k)
	bar, err := net.ListenUDP("udp4", &net.UDPAddr{IP: net.ParseIP(fmt.Sprintf("127.%d.0.98", k)), Port: 7805})
	if err != nil {
		return nil, err
	}
	n.bar = bar
	return n, nil
}

// barrier sends a Heartbeat Request from a socket of its own and waits for the answer: when it arrives, every
// datagram sent before it has been dealt with by the receiver and the event loop (one socket pair, one queue,
// in order) - also one the receiver dropped without a trace. false: no answer (gone() became true or 10 s passed).
func (n *vfNet) barrier(gone func() bool) bool {
	n.nbar++
	seq := 0xf00000 + n.nbar%0xfffff
	b, err := message.NewHeartbeatRequest(seq, ie.NewRecoveryTimeStamp(vfT0), nil).Marshal()
	if err != nil {
		return false
	}
	if _, err := n.bar.WriteToUDP(b, &net.UDPAddr{IP: net.ParseIP(n.upf), Port: 8805}); err != nil {
		return false
	}
	buf := make([]byte, 2048)
	for t0 := time.Now(); time.Since(t0) < 10*time.Second; {
		_ = n.bar.SetReadDeadline(time.Now().Add(20 * time.Millisecond))
		nn, _, err := n.bar.ReadFromUDP(buf)
		if err == nil && nn >= 8 && buf[1] == 2 && uint32(buf[4])<<16|uint32(buf[5])<<8|uint32(buf[6]) == seq {
			return true
		}
		if gone() {
			return false
		}
	}
	return false
}

// vfBigRcvBuf enlarges a socket's receive buffer so that bursts emitted in one loop turn are not
// dropped by the harness's own sockets (SO_RCVBUFFORCE needs CAP_NET_ADMIN; SO_RCVBUF as fallback)
func vfBigRcvBuf(rc syscall.RawConn) {
	_ = rc.Control(func(fd uintptr) {
		if err := syscall.SetsockoptInt(int(fd), syscall.SOL_SOCKET, 33 /* SO_RCVBUFFORCE */, 32<<20); err != nil {
			_ = syscall.SetsockoptInt(int(fd), syscall.SOL_SOCKET, syscall.SO_RCVBUF, 32<<20)
		}
	})
}

func (n *vfNet) close() {
	for _, c := range n.conns {
		c.Close()
	}
	if n.bar != nil {
		n.bar.Close()
	}
}

func (n *vfNet) peerName(a net.Addr) string {
	if v, ok := n.names[a.String()]; ok {
		return v
	}
	return a.String()
}

// keyName turns a transaction key "127.k.0.11:8805-5" into "p1-5".
func (n *vfNet) keyName(k string) string {
	i := strings.LastIndex(k, "-")
	if i < 0 {
		return k
	}
	if v, ok := n.names[k[:i]]; ok {
		return v + k[i:]
	}
	return k
}

func (n *vfNet) keyOf(peer string, seq string) string {
	a, ok := n.addrs[peer]
	if !ok {
		return peer + "-" + seq
	}
	return a.String() + "-" + seq
}

// drain reads everything that is queued on the SMF sockets, without waiting.
func (n *vfNet) drain() [][2]string {
	var res [][2]string
	buf := make([]byte, 65536)
	for _, name := range n.peers {
		rc := n.raws[name]
		for {
			var nn int
			var rerr error
			err := rc.Read(func(fd uintptr) bool {
				nn, _, rerr = syscall.Recvfrom(int(fd), buf, syscall.MSG_DONTWAIT)
				return true
			})
			if err != nil || rerr != nil || nn < 0 {
				break
			}
			res = append(res, [2]string{name, string(buf[:nn])})
		}
	}
	return res
}

// ---------------------------------------------------------------- loop barrier + snapshot (VerifIdle hook)

type vfGate struct {
	mu   sync.Mutex
	cond *sync.Cond
	n    uint64
	snap vfSnap
	net  *vfNet
	srv  *PfcpServer
}

func (g *vfGate) idle(s *PfcpServer) {
	if s != g.srv {
		return
	}
	sn := vfSnap{Rx: []vfRx{}, Tx: []vfTx{}, Free: []string{}, Live: []string{}, Nodes: []string{}}
	for k, rx := range s.rxTrans {
		sn.Rx = append(sn.Rx, vfRx{K: g.net.keyName(k), Rsp: len(rx.msgBuf) > 0})
	}
	sort.Slice(sn.Rx, func(i, j int) bool { return sn.Rx[i].K < sn.Rx[j].K })
	for k, tx := range s.txTrans {
		sn.Tx = append(sn.Tx, vfTx{K: g.net.keyName(k), Peer: g.net.peerName(tx.raddr),
			Wire: int(tx.seq & 0xffffff), N: int(tx.retransCount)})
	}
	sort.Slice(sn.Tx, func(i, j int) bool { return sn.Tx[i].K < sn.Tx[j].K })
	sn.TxSeq = strconv.FormatUint(uint64(s.txSeq), 10)
	for _, f := range s.lnode.free {
		sn.Free = append(sn.Free, strconv.FormatUint(f, 10))
	}
	for i, se := range s.lnode.sess {
		if se != nil {
			sn.Live = append(sn.Live, strconv.FormatUint(uint64(i+1), 10))
		}
	}
	for id := range s.rnodes {
		nm := id
		for k, v := range g.net.nodes {
			if v == id {
				nm = k
			}
		}
		sn.Nodes = append(sn.Nodes, nm)
	}
	sort.Strings(sn.Nodes)
	g.mu.Lock()
	g.n++
	g.snap = sn
	g.cond.Broadcast()
	g.mu.Unlock()
}

func (g *vfGate) count() uint64 {
	g.mu.Lock()
	defer g.mu.Unlock()
	return g.n
}

// waitFor waits until the loop has reached its idle point n times in total.
func (g *vfGate) waitFor(n uint64, d time.Duration) (vfSnap, bool) {
	deadline := time.Now().Add(d)
	g.mu.Lock()
	defer g.mu.Unlock()
	for g.n < n {
		if time.Now().After(deadline) {
			return g.snap, false
		}
		g.mu.Unlock()
		time.Sleep(50 * time.Microsecond)
		g.mu.Lock()
	}
	return g.snap, true
}

// ---------------------------------------------------------------- message construction (abstract op -> IE)

func vfUint8s(v int) (int, int, int) { return (v >> 2) & 1, (v >> 1) & 1, v & 1 }

// vfGnbIP is set by the L2 executor: address of simulated gNB i
var vfGnbIP = func(i int) string { return fmt.Sprintf("127.0.1.%d", i) }

func vfAAIE(aa int) *ie.IE {
	if aa > 255 {
		return ie.NewApplyAction(uint8(aa), uint8(aa>>8))
	}
	return ie.NewApplyAction(uint8(aa))
}

func vfOpIE(o vfOp) *ie.IE {
	id := o.ID
	switch o.Op + "/" + o.Kind {
	case "create/far":
		aa := o.AA
		if aa == 0 {
			aa = 2
		}
		ies := []*ie.IE{ie.NewFARID(uint32(id)), vfAAIE(aa)}
		if o.Gnb > 0 {
			ies = append(ies, ie.NewForwardingParameters(ie.NewDestinationInterface(ie.DstInterfaceAccess),
				ie.NewOuterHeaderCreation(0x0100, uint32(o.Teid), vfGnbIP(o.Gnb), "", 0, 0, 0)))
		}
		return ie.NewCreateFAR(ies...)
	case "update/far":
		ies := []*ie.IE{ie.NewFARID(uint32(id))}
		if o.AA > 0 {
			ies = append(ies, vfAAIE(o.AA))
		}
		if o.Gnb > 0 {
			ies = append(ies, ie.NewUpdateForwardingParameters(ie.NewDestinationInterface(ie.DstInterfaceAccess),
				ie.NewOuterHeaderCreation(0x0100, uint32(o.Teid), vfGnbIP(o.Gnb), "", 0, 0, 0)))
		}
		return ie.NewUpdateFAR(ies...)
	case "remove/far":
		return ie.NewRemoveFAR(ie.NewFARID(uint32(id)))
	case "create/qer":
		if o.Qfi > 0 {
			return ie.NewCreateQER(ie.NewQERID(uint32(id)), ie.NewGateStatus(0, 0), ie.NewQFI(uint8(o.Qfi)))
		}
		return ie.NewCreateQER(ie.NewQERID(uint32(id)), ie.NewGateStatus(0, 0))
	case "update/qer":
		return ie.NewUpdateQER(ie.NewQERID(uint32(id)), ie.NewGateStatus(1, 1))
	case "remove/qer":
		return ie.NewRemoveQER(ie.NewQERID(uint32(id)))
	case "create/bar":
		return ie.NewCreateBAR(ie.NewBARID(uint8(id)))
	case "update/bar":
		return ie.NewUpdateBARWithinSessionModificationRequest(ie.NewBARID(uint8(id)))
	case "remove/bar":
		return ie.NewRemoveBAR(ie.NewBARID(uint8(id)))
	case "create/urr", "update/urr":
		ies := []*ie.IE{ie.NewURRID(uint32(id))}
		if o.Meth >= 0 {
			e, v, d := vfUint8s(o.Meth)
			ies = append(ies, ie.NewMeasurementMethod(e, v, d))
		}
		if o.Perio {
			ies = append(ies, ie.NewReportingTriggers(0x03, 0x00), ie.NewMeasurementPeriod(time.Duration(o.Period)*time.Second))
		} else {
			ies = append(ies, ie.NewReportingTriggers(0x02, 0x00)) // VOLTH; not periodic
		}
		if o.MInfo >= 0 {
			ies = append(ies, ie.NewMeasurementInformation(uint8(o.MInfo)))
		}
		if o.Op == "create" {
			return ie.NewCreateURR(ies...)
		}
		return ie.NewUpdateURR(ies...)
	case "remove/urr":
		return ie.NewRemoveURR(ie.NewURRID(uint32(id)))
	case "query/urr":
		return ie.NewQueryURR(ie.NewURRID(uint32(id)))
	case "create/pdr":
		pdi := []*ie.IE{ie.NewSourceInterface(ie.SrcInterfaceCore)}
		if o.Sdf != "" {
			pdi = append(pdi, ie.NewSDFFilter(o.Sdf, "", "", "", 0))
		}
		if o.UEIP {
			pdi = append(pdi, ie.NewUEIPAddress(2, fmt.Sprintf("10.60.%d.%d", (id>>8)&0xff, id&0xff), "", 0, 0))
		}
		ies := []*ie.IE{ie.NewPDRID(uint16(id)), ie.NewPrecedence(255), ie.NewPDI(pdi...)}
		if o.Far > 0 {
			ies = append(ies, ie.NewFARID(uint32(o.Far)))
		}
		for _, q := range o.Qers {
			ies = append(ies, ie.NewQERID(uint32(q)))
		}
		for _, u := range o.URRs {
			ies = append(ies, ie.NewURRID(uint32(u)))
		}
		return ie.NewCreatePDR(ies...)
	case "update/pdr":
		ies := []*ie.IE{ie.NewPDRID(uint16(id))}
		if o.Far > 0 {
			ies = append(ies, ie.NewFARID(uint32(o.Far)))
		}
		for _, u := range o.URRs {
			ies = append(ies, ie.NewURRID(uint32(u)))
		}
		return ie.NewUpdatePDR(ies...)
	case "remove/pdr":
		return ie.NewRemovePDR(ie.NewPDRID(uint16(id)))
	}
	return nil
}

func (x *vfExec) nodeIE(node string) *ie.IE {
	if node == "" {
		return nil
	}
	if node == "!bad" {
		// a Node ID IE that cannot be decoded (node id type 7 is not defined)
		return ie.New(ie.NodeID, []byte{0x07, 0x7f, 0x00, 0x00, 0x08})
	}
	if ip, ok := x.net.nodes[node]; ok {
		return ie.NewNodeID(ip, "", "")
	}
	return ie.NewNodeID("", "", node) // FQDN form
}

func (x *vfExec) build(e *vfEvent) ([]byte, error) {
	seq := uint32(e.Seq)
	var ies []*ie.IE
	if n := x.nodeIE(e.Node); n != nil {
		ies = append(ies, n)
	}
	seid, _ := strconv.ParseUint(e.SEID, 10, 64)
	for _, o := range e.Ops {
		if i := vfOpIE(o); i != nil {
			ies = append(ies, i)
		}
	}
	var m message.Message
	switch e.T {
	case "hb":
		m = message.NewHeartbeatRequest(seq, ie.NewRecoveryTimeStamp(vfT0), nil)
	case "assoc":
		ies = append(ies, ie.NewRecoveryTimeStamp(vfT0.Add(time.Duration(e.Rts)*time.Second)))
		m = message.NewAssociationSetupRequest(seq, ies...)
	case "assocupd":
		m = message.NewAssociationUpdateRequest(seq, ies...)
	case "assocrel":
		m = message.NewAssociationReleaseRequest(seq, x.nodeIE(e.Node))
	case "est":
		if e.CP != "" {
			cp, _ := strconv.ParseUint(e.CP, 10, 64)
			ies = append(ies, ie.NewFSEID(cp, net.ParseIP(x.net.addrs["p1"].IP.String()), nil))
		}
		m = message.NewSessionEstablishmentRequest(0, 0, seid, seq, 0, ies...)
	case "mod":
		if e.CP != "" {
			// a CP F-SEID IE in a Modification Request: it does not address anything, the header SEID does
			cp, _ := strconv.ParseUint(e.CP, 10, 64)
			ies = append(ies, ie.NewFSEID(cp, net.ParseIP(x.net.addrs["p1"].IP.String()), nil))
		}
		m = message.NewSessionModificationRequest(0, 0, seid, seq, 0, ies...)
	case "del":
		m = message.NewSessionDeletionRequest(0, 0, seid, seq, 0, ies...)
	case "rptrsp":
		m = message.NewSessionReportResponse(0, 0, seid, seq, 0, ie.NewCause(ie.CauseRequestAccepted))
	case "hbrsp":
		m = message.NewHeartbeatResponse(seq, ie.NewRecoveryTimeStamp(vfT0))
	default:
		return nil, fmt.Errorf("build: unknown event type %q", e.T)
	}
	b := make([]byte, m.MarshalLen())
	if err := m.MarshalTo(b); err != nil {
		return nil, err
	}
	return b, nil
}

// ---------------------------------------------------------------- structure-aware mutation (C07)

var vfGrouped = map[int]bool{1: true, 2: true, 3: true, 4: true, 5: true, 6: true, 7: true, 8: true, 9: true, 10: true, 11: true, 12: true,
	13: true, 14: true, 15: true, 16: true, 17: true, 18: true, 77: true, 78: true, 79: true, 80: true, 83: true, 85: true, 86: true, 87: true}

type vfIEPos struct{ off, hdr, plen, depth int }

// vfWalkIEs lists the IEs of a message body in pre-order (nested IEs of grouped IEs included)
func vfWalkIEs(b []byte, base, depth int, out *[]vfIEPos) {
	off := 0
	for off+4 <= len(b) {
		t := int(b[off])<<8 | int(b[off+1])
		l := int(b[off+2])<<8 | int(b[off+3])
		if off+4+l > len(b) {
			return
		}
		*out = append(*out, vfIEPos{off: base + off, hdr: 4, plen: l, depth: depth})
		if vfGrouped[t] && depth < 4 {
			vfWalkIEs(b[off+4:off+4+l], base+off+4, depth+1, out)
		}
		off += 4 + l
	}
}

func vfMutate(b []byte, m vfMut) []byte {
	hl := 8
	if len(b) > 0 && b[0]&1 == 1 {
		hl = 16
	}
	if len(b) < hl {
		return b
	}
	var ies []vfIEPos
	vfWalkIEs(b[hl:], hl, 0, &ies)
	pick := func() (vfIEPos, bool) {
		if len(ies) == 0 {
			return vfIEPos{}, false
		}
		k := m.K % len(ies)
		if k < 0 {
			k += len(ies)
		}
		return ies[k], true
	}
	// fixLen re-computes the header length and the lengths of the enclosing grouped IEs after a splice (delta bytes at off)
	fixLen := func(nb []byte, at, delta int) {
		tl := int(nb[2])<<8 | int(nb[3])
		tl += delta
		nb[2], nb[3] = byte(tl>>8), byte(tl)
		for _, e := range ies {
			if e.off < at && at < e.off+4+e.plen+1 && e.off+4 <= at {
				l := e.plen + delta
				if e.off+4 <= len(nb) {
					nb[e.off+2], nb[e.off+3] = byte(l>>8), byte(l)
				}
			}
		}
	}
	nb := append([]byte{}, b...)
	switch m.Op {
	case "none":
	case "trunc":
		n := m.K
		if e, ok := pick(); ok && m.V == 1 {
			n = e.off + e.hdr/2 // inside an IE header
		} else if ok && m.V == 2 {
			n = e.off + e.hdr + e.plen/2 // inside an IE payload
		} else if ok && m.V == 3 {
			n = e.off // at an IE boundary
		}
		if n < 0 {
			n = 0 // an empty UDP datagram is a datagram too
		}
		if n < len(nb) {
			nb = nb[:n]
		}
	case "hdrlen":
		nb[2], nb[3] = byte(m.V>>8), byte(m.V)
	case "iel":
		if e, ok := pick(); ok {
			l := m.V
			switch m.V {
			case -1:
				l = e.plen - 1
			case -2:
				l = e.plen + 1
			case -3:
				l = 0xffff
			case -4:
				l = 0
			}
			if l < 0 {
				l = 0
			}
			nb[e.off+2], nb[e.off+3] = byte(l>>8), byte(l)
		}
	case "iet":
		if e, ok := pick(); ok {
			nb[e.off], nb[e.off+1] = byte(m.V>>8), byte(m.V)
		}
	case "drop":
		if e, ok := pick(); ok {
			nb = append(append([]byte{}, b[:e.off]...), b[e.off+4+e.plen:]...)
			fixLen(nb, e.off, -(4 + e.plen))
		}
	case "dup":
		if e, ok := pick(); ok {
			x := append([]byte{}, b[e.off:e.off+4+e.plen]...)
			nb = append(append(append([]byte{}, b[:e.off]...), x...), b[e.off:]...)
			fixLen(nb, e.off, 4+e.plen)
		}
	case "ieb": // a byte of an IE payload
		if e, ok := pick(); ok && e.plen > 0 {
			o := e.off + 4 + (m.V>>8)%e.plen
			nb[o] = byte(m.V)
		}
	case "ieb0": // the first payload octet of an IE (where flag octets live)
		if e, ok := pick(); ok && e.plen > 0 {
			nb[e.off+4] = byte(m.V)
		}
	case "ieb23": // octets 3-4 of an IE payload (where inner length fields live)
		if e, ok := pick(); ok && e.plen >= 4 {
			nb[e.off+4+2], nb[e.off+4+3] = byte(m.V>>8), byte(m.V)
		}
	case "byte":
		if len(nb) > 0 {
			nb[((m.K%len(nb))+len(nb))%len(nb)] = byte(m.V)
		}
	case "seid":
		if hl == 16 {
			v, _ := strconv.ParseUint(m.S, 10, 64)
			for i := 0; i < 8; i++ {
				nb[4+i] = byte(v >> (8 * (7 - i)))
			}
		}
	case "mt":
		nb[1] = byte(m.V)
	case "ver":
		nb[0] = (nb[0] & 0x1f) | byte(m.V<<5)
	case "rand":
		n := m.K
		if n < 0 {
			n = 0
		}
		nb = make([]byte, n)
		x := uint32(m.V)*2654435761 + 1
		for i := range nb {
			x = x*1664525 + 1013904223
			nb[i] = byte(x >> 24)
		}
	}
	return nb
}

// buildMut builds the valid message of a "mut" event and mutates it; the event is recorded as a raw datagram
func (x *vfExec) buildMut(e *vfEvent) ([]byte, error) {
	base := *e
	base.T = e.Base
	b, err := x.build(&base)
	if err != nil {
		return nil, err
	}
	nb := vfMutate(b, e.Mut)
	e.Raw = hex.EncodeToString(nb)
	// whom may the datagram concern? the header SEID if it has one, else everybody ("all")
	e.SEID = "all"
	if len(nb) >= 16 && nb[0]&1 == 1 {
		var sd uint64
		for _, c := range nb[4:12] {
			sd = sd<<8 | uint64(c)
		}
		e.SEID = strconv.FormatUint(sd, 10)
	}
	// which node may it concern? (the node id IE of a message that still parses)
	e.Node = ""
	if m, err := message.Parse(nb); err == nil {
		var nid *ie.IE
		switch r := m.(type) {
		case *message.AssociationSetupRequest:
			nid = r.NodeID
		case *message.AssociationUpdateRequest:
			nid = r.NodeID
		case *message.AssociationReleaseRequest:
			nid = r.NodeID
		case *message.SessionEstablishmentRequest:
			nid = r.NodeID
		case *message.SessionModificationRequest:
			nid = r.NodeID
		}
		if nid != nil {
			if v, err := nid.NodeID(); err == nil {
				e.Node = v
				for k, ip := range x.net.nodes {
					if ip == v {
						e.Node = k
					}
				}
			} else {
				e.Node = "?"
			}
		}
	}
	e.T = "raw"
	return nb, nil
}

// ---------------------------------------------------------------- abstraction of output datagrams

func (x *vfExec) abstract(to string, raw []byte) vfOut {
	o := vfOut{To: to, Created: []int{}, Rpts: []vfOutRep{}, DLDR: []int{}, Hex: hex.EncodeToString(raw)}
	if len(raw) >= 8 {
		// header fields straight from the bytes (independent of go-pfcp)
		o.MT = int(raw[1])
		if raw[0]&1 == 1 && len(raw) >= 16 {
			o.HasSEID = true
			var s uint64
			for _, c := range raw[4:12] {
				s = s<<8 | uint64(c)
			}
			o.SEID = strconv.FormatUint(s, 10)
			o.Seq = int(raw[12])<<16 | int(raw[13])<<8 | int(raw[14])
		} else {
			o.Seq = int(raw[4])<<16 | int(raw[5])<<8 | int(raw[6])
		}
	}
	m, err := message.Parse(raw)
	if err != nil {
		o.Bad = "parse: " + err.Error()
		return o
	}
	var cause, node, fseid, rts, rtype *ie.IE
	var created, usage []*ie.IE
	var dldr *ie.IE
	switch r := m.(type) {
	case *message.HeartbeatResponse:
		rts = r.RecoveryTimeStamp
	case *message.AssociationSetupResponse:
		cause, node, rts = r.Cause, r.NodeID, r.RecoveryTimeStamp
	case *message.SessionEstablishmentResponse:
		cause, node, fseid, created = r.Cause, r.NodeID, r.UPFSEID, r.CreatedPDR
	case *message.SessionModificationResponse:
		cause, usage = r.Cause, r.UsageReport
	case *message.SessionDeletionResponse:
		cause, usage = r.Cause, r.UsageReport
	case *message.SessionReportRequest:
		rtype, usage, dldr = r.ReportType, r.UsageReport, r.DownlinkDataReport
	default:
		o.Bad = fmt.Sprintf("unexpected message type %d", m.MessageType())
	}
	if cause != nil {
		if v, err := cause.Cause(); err == nil {
			o.Cause = int(v)
		}
	}
	if node != nil {
		if v, err := node.NodeID(); err == nil {
			if v == x.net.upf {
				o.Node = "upf"
			} else {
				o.Node = v
			}
		}
	}
	if fseid != nil {
		if v, err := fseid.FSEID(); err == nil {
			o.FSEID = strconv.FormatUint(v.SEID, 10)
		}
	}
	if rts != nil {
		if v, err := rts.RecoveryTimeStamp(); err == nil {
			o.RTS = strconv.FormatInt(v.Unix(), 10)
		}
	}
	if rtype != nil {
		if v, err := rtype.ReportType(); err == nil {
			o.RType = int(v)
		}
	}
	for _, c := range created {
		if v, err := c.PDRID(); err == nil {
			o.Created = append(o.Created, int(v))
		}
	}
	if dldr != nil {
		if xs, err := dldr.DownlinkDataReport(); err == nil {
			for _, c := range xs {
				if c.Type == ie.PDRID {
					if v, err := c.PDRID(); err == nil {
						o.DLDR = append(o.DLDR, int(v))
					}
				}
			}
		}
	}
	for _, u := range usage {
		xs, err := u.UsageReport()
		if err != nil {
			o.Bad = "usage report: " + err.Error()
			continue
		}
		r := vfOutRep{URR: -1, Seqn: -1, Trig: -1, VF: -1,
			Vals: vfVals{TV: "-", UV: "-", DV: "-", TP: "-", UP: "-", DP: "-", ST: "-", ET: "-", DU: "-"}}
		for _, c := range xs {
			switch c.Type {
			case ie.URRID:
				if v, err := c.URRID(); err == nil {
					r.URR = int(v)
				}
			case ie.URSEQN:
				if v, err := c.URSEQN(); err == nil {
					r.Seqn = int(v)
				}
			case ie.UsageReportTrigger:
				p := c.Payload
				t := 0
				for i := 0; i < len(p) && i < 3; i++ {
					t |= int(p[i]) << (8 * i)
				}
				r.Trig = t
			case ie.StartTime:
				if v, err := c.StartTime(); err == nil {
					r.Vals.ST = strconv.FormatInt(v.Unix(), 10)
				}
			case ie.EndTime:
				if v, err := c.EndTime(); err == nil {
					r.Vals.ET = strconv.FormatInt(v.Unix(), 10)
				}
			case ie.VolumeMeasurement:
				if v, err := c.VolumeMeasurement(); err == nil {
					r.VF = int(v.Flags)
					u := func(b bool, x uint64) string {
						if !b {
							return "-"
						}
						return strconv.FormatUint(x, 10)
					}
					r.Vals.TV = u(v.HasTOVOL(), v.TotalVolume)
					r.Vals.UV = u(v.HasULVOL(), v.UplinkVolume)
					r.Vals.DV = u(v.HasDLVOL(), v.DownlinkVolume)
					r.Vals.TP = u(v.HasTONOP(), v.TotalNumberOfPackets)
					r.Vals.UP = u(v.HasULNOP(), v.UplinkNumberOfPackets)
					r.Vals.DP = u(v.HasDLNOP(), v.DownlinkNumberOfPackets)
				}
			case ie.DurationMeasurement:
				if v, err := c.DurationMeasurement(); err == nil {
					r.Dur = true
					r.Vals.DU = strconv.FormatInt(int64(v/time.Second), 10)
				}
			}
		}
		o.Rpts = append(o.Rpts, r)
	}
	return o
}

// ---------------------------------------------------------------- executor

type vfExec struct {
	net   *vfNet
	gate  *vfGate
	tok   int
	fatal string
	fmu   sync.Mutex
}

type vfRun struct {
	srv   *PfcpServer
	twin  *vfTwin
	wg    sync.WaitGroup
	seids []string // ordinal-1 -> UP SEID issued (decimal)
	srrs  []vfOut  // Session Report Requests seen so far, in observation order
}

// vfFatalHook records the message of a Fatal log entry (the event loop logs the recovered panic there)
type vfFatalHook struct{ x *vfExec }

func (h vfFatalHook) Levels() []logrus.Level { return []logrus.Level{logrus.FatalLevel} }
func (h vfFatalHook) Fire(e *logrus.Entry) error {
	m := e.Message
	if i := strings.Index(m, "\n"); i > 0 {
		// keep the panic value and the innermost frames of go-upf / go-pfcp
		rest := m[i:]
		m = m[:i]
		for _, ln := range strings.Split(rest, "\n") {
			if strings.Contains(ln, "go-pfcp") || strings.Contains(ln, "go-upf/internal") {
				m += " | " + strings.TrimSpace(ln)
				if len(m) > 500 {
					break
				}
			}
		}
	}
	h.x.noteFatal(m)
	return nil
}

func (x *vfExec) noteFatal(msg string) {
	x.fmu.Lock()
	if x.fatal == "" {
		x.fatal = msg
	}
	x.fmu.Unlock()
}

func (x *vfExec) peekFatal() bool {
	x.fmu.Lock()
	defer x.fmu.Unlock()
	return x.fatal != ""
}

func (x *vfExec) takeFatal() string {
	x.fmu.Lock()
	defer x.fmu.Unlock()
	f := x.fatal
	x.fatal = ""
	return f
}

func (x *vfExec) start(init *vfEvent) (*vfRun, error) {
	r := &vfRun{}
	x.takeFatal()
	r.twin = vfNewTwin(&x.tok)
	r.twin.lax = init.Lax
	cfg := &factory.Config{
		Pfcp: &factory.Pfcp{
			Addr:           x.net.upf,
			NodeID:         x.net.upf,
			RetransTimeout: time.Hour,
			MaxRetrans:     uint8(init.MaxRt),
		},
	}
	r.srv = NewPfcpServer(cfg, r.twin)
	// this UPF "was started" long ago: a recovery time stamp taken anew during the run differs from it by more than the
	// one-second resolution of the IE
	r.srv.recoveryTime = vfT0.Add(-90 * 24 * time.Hour)
	if init.TxSeq0 != "" {
		v, _ := strconv.ParseUint(init.TxSeq0, 10, 32)
		r.srv.txSeq = uint32(v)
	}
	r.twin.HandleReport(r.srv)
	x.gate.mu.Lock()
	x.gate.srv = r.srv
	x.gate.n = 0
	x.gate.mu.Unlock()
	r.srv.Start(&r.wg)
	if _, ok := x.gate.waitFor(1, 10*time.Second); !ok {
		return nil, fmt.Errorf("server did not reach its loop (address %s in use?)", x.net.upf)
	}
	return r, nil
}

func (x *vfExec) stop(r *vfRun) error {
	done := make(chan struct{})
	go func() { r.srv.Stop(); r.wg.Wait(); close(done) }()
	select {
	case <-done:
		return nil
	case <-time.After(20 * time.Second):
		return fmt.Errorf("server did not stop within 20 s")
	}
}

func (r *vfRun) resolve(e *vfEvent) {
	if e.SRef > 0 {
		if e.SRef <= len(r.seids) {
			e.SEID = r.seids[e.SRef-1]
		} else {
			e.SEID = strconv.Itoa(1000 + e.SRef) // never issued
		}
	}
	if e.RRef > 0 && e.RRef <= len(r.srrs) {
		q := r.srrs[e.RRef-1]
		switch e.T {
		case "rptrsp":
			e.Seq = q.Seq
			if e.Peer == "" {
				e.Peer = q.To
			}
		case "timeout":
			e.TSeq = q.Seq
			if e.TPeer == "" {
				e.TPeer = q.To
			}
		}
	}
	if e.SEID == "" {
		e.SEID = "0"
	}
	// a reference that could not be resolved (fewer report requests than the generator guessed)
	if (e.T == "rptrsp" || e.T == "hbrsp") && e.Peer == "" {
		e.Peer = "p1"
	}
	if e.T == "timeout" && e.TPeer == "" {
		e.TPeer = "p1"
	}
}

func vfNorm(e *vfEvent) {
	if e.Ops == nil {
		e.Ops = []vfOp{}
	}
	for i := range e.Ops {
		if e.Ops[i].URRs == nil {
			e.Ops[i].URRs = []int{}
		}
		if e.Ops[i].Qers == nil {
			e.Ops[i].Qers = []int{}
		}
	}
	if e.Faults == nil {
		e.Faults = []int{}
	}
	if e.Faults2 == nil {
		e.Faults2 = []int{}
	}
	if e.Reports == nil {
		e.Reports = []vfRep{}
	}
}

// step executes one event on the running server and records what it did.
func (x *vfExec) step(r *vfRun, e *vfEvent) (vfLine, error) {
	var ln vfLine
	vfNorm(e)
	r.resolve(e)
	r.twin.setFaults(e.Faults, e.Faults2)
	n0 := x.gate.count()
	switch e.T {
	case "report":
		seid, _ := strconv.ParseUint(e.SEID, 10, 64)
		sr := report.SessReport{SEID: seid}
		for i := range e.Reports {
			rp := &e.Reports[i]
			switch rp.K {
			case "usar":
				u, rec := r.twin.newReport(rp.URR, uint32(rp.Trig))
				rp.Tok, rp.Vals = rec.Tok, rec.Vals
				sr.Reports = append(sr.Reports, u)
			case "dldr":
				pkt, _ := hex.DecodeString(rp.Pkt)
				sr.Reports = append(sr.Reports, report.DLDReport{PDRID: uint16(rp.PDR), Action: uint16(rp.Action), BufPkt: pkt})
			}
		}
		r.srv.NotifySessReport(sr)
	case "timeout":
		tt := RX
		key := x.net.keyOf(e.TPeer, strconv.Itoa(e.TSeq))
		if e.TT == "tx" {
			tt = TX
			// address the entry the server holds for (peer, wire sequence), whatever it is keyed by
			snap, _ := x.gate.waitFor(n0, time.Second)
			for _, t := range snap.Tx {
				if t.Peer == e.TPeer && t.Wire == e.TSeq {
					i := strings.LastIndex(t.K, "-")
					key = x.net.keyOf(e.TPeer, t.K[i+1:])
				}
			}
		}
		r.srv.NotifyTransTimeout(tt, key)
	case "mut", "raw":
		var b []byte
		var err error
		if e.T == "mut" {
			b, err = x.buildMut(e)
		} else {
			b, err = hex.DecodeString(e.Raw)
		}
		if err != nil {
			return ln, err
		}
		if _, err := x.net.conns[e.Peer].WriteToUDP(b, &net.UDPAddr{IP: net.ParseIP(x.net.upf), Port: 8805}); err != nil {
			return ln, err
		}
		if len(b) == 0 {
			// an empty datagram need not reach the event loop at all: the barrier tells when it has been dealt with
			x.net.barrier(func() bool { return vfLoopReturned(r.srv) || x.peekFatal() })
		}
	default:
		b, err := x.build(e)
		if err != nil {
			return ln, err
		}
		c, ok := x.net.conns[e.Peer]
		if !ok {
			return ln, fmt.Errorf("unknown peer %q", e.Peer)
		}
		if _, err := c.WriteToUDP(b, &net.UDPAddr{IP: net.ParseIP(x.net.upf), Port: 8805}); err != nil {
			return ln, err
		}
	}
	var snap vfSnap
	ok := false
	for t0 := time.Now(); time.Since(t0) < 10*time.Second && !ok; {
		snap, ok = x.gate.waitFor(n0+1, 20*time.Millisecond)
		if !ok && x.peekFatal() {
			time.Sleep(20 * time.Millisecond) // let the dying loop finish its deferred work
			break
		}
		if !ok && vfLoopReturned(r.srv) {
			break
		}
	}
	ln.E = *e
	ln.Fatal = x.takeFatal()
	if !ok && ln.Fatal == "" && vfLoopReturned(r.srv) {
		// nobody called Stop: the event loop left on its own account - the UPF has stopped serving
		ln.Fatal = "the PFCP event loop returned without Stop: the UPF stopped serving"
	}
	if !ok && ln.Fatal == "" {
		return ln, fmt.Errorf("event %s not consumed by the loop within 10 s", e.T)
	}
	ln.Snap = snap
	ln.Calls = r.twin.take()
	ln.Out = []vfOut{}
	for _, d := range x.net.drain() {
		o := x.abstract(d[0], []byte(d[1]))
		ln.Out = append(ln.Out, o)
		if o.MT == int(message.MsgTypeSessionReportRequest) {
			r.srrs = append(r.srrs, o)
		}
		if e.T == "est" && o.MT == int(message.MsgTypeSessionEstablishmentResponse) && o.FSEID != "" {
			r.seids = append(r.seids, o.FSEID)
		}
	}
	return ln, nil
}

// vfLoopReturned: main() has run its deferred clean-up (it closes done on the way out)
func vfLoopReturned(s *PfcpServer) bool {
	if s == nil || s.done == nil {
		return false
	}
	select {
	case <-s.done:
		return true
	default:
		return false
	}
}

func TestVerifL1(t *testing.T) {
	in, out := os.Getenv("VERIF_IN"), os.Getenv("VERIF_OUT")
	if in == "" || out == "" {
		t.Skip("VERIF_IN / VERIF_OUT not set")
	}
	k, _ := strconv.Atoi(os.Getenv("VERIF_K"))
	if k == 0 {
		k = 77
	}
	logger.Log.SetLevel(logrus.FatalLevel) // keep the run quiet, but let the fatal hook see recovered panics
	logger.Log.SetOutput(io.Discard)
	if os.Getenv("VERIF_LOG") != "" {
		logger.Log.SetLevel(6)
		logger.Log.SetOutput(os.Stderr)
	}
	nw, err := vfNewNet(k)
	if err != nil {
		t.Fatalf("INFRA: %v", err)
	}
	defer nw.close()
	x := &vfExec{net: nw}
	x.gate = &vfGate{net: nw}
	x.gate.cond = sync.NewCond(&x.gate.mu)
	VerifIdle = x.gate.idle
	logger.Log.AddHook(vfFatalHook{x})
	logger.Log.ExitFunc = func(code int) {
		x.noteFatal(fmt.Sprintf("exit(%d) via logger (recovered panic in the event loop)", code))
	}

	fi, err := os.Open(in)
	if err != nil {
		t.Fatalf("INFRA: %v", err)
	}
	defer fi.Close()
	fo, err := os.Create(out)
	if err != nil {
		t.Fatalf("INFRA: %v", err)
	}
	defer fo.Close()
	w := bufio.NewWriterSize(fo, 1<<20)
	defer w.Flush()
	enc := json.NewEncoder(w)

	sc := bufio.NewScanner(fi)
	sc.Buffer(make([]byte, 1<<20), 1<<28)
	nscripts, nevents := 0, 0
	for sc.Scan() {
		if len(strings.TrimSpace(sc.Text())) == 0 {
			continue
		}
		var s vfScript
		if err := json.Unmarshal(sc.Bytes(), &s); err != nil {
			t.Fatalf("INFRA: bad script line: %v", err)
		}
		if len(s.Events) == 0 || s.Events[0].T != "init" {
			t.Fatalf("INFRA: script %s does not start with init", s.ID)
		}
		nscripts++
		init := s.Events[0]
		vfNorm(&init)
		r, err := x.start(&init)
		if err != nil {
			t.Fatalf("INFRA: %v", err)
		}
		x.net.drain()
		snap, _ := x.gate.waitFor(1, time.Second)
		_ = enc.Encode(vfLine{Tr: s.ID, I: 0, E: init, Calls: []vfCall{}, Out: []vfOut{}, Snap: snap})
		dead := false
		for i := 1; i < len(s.Events); i++ {
			e := s.Events[i]
			ln, err := x.step(r, &e)
			if err != nil {
				w.Flush()
				t.Fatalf("INFRA: script %s event %d: %v", s.ID, i, err)
			}
			ln.Tr, ln.I = s.ID, i
			nevents++
			if err := enc.Encode(ln); err != nil {
				t.Fatalf("INFRA: %v", err)
			}
			if ln.Fatal != "" {
				dead = true
				break
			}
		}
		if !dead {
			if err := x.stop(r); err != nil {
				w.Flush()
				t.Fatalf("INFRA: script %s: %v", s.ID, err)
			}
		} else {
			// the loop has exited through its deferred function; release the socket
			r.srv.Stop()
			r.wg.Wait()
		}
	}
	fmt.Printf("VERIF-L1 scripts=%d events=%d\n", nscripts, nevents)
}
