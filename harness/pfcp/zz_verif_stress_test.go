//go:build verif

package pfcp

// Concurrency scenarios on the full stack (C17, C18): bursts that cross the internal queue sizes, report
// producers racing with PFCP traffic and transaction timers, Stop at an arbitrary moment.  One scenario per
// process invocation is typical (a wedge or a panic ends the process); results are written as ND-JSON.

import (
	"bufio"
	"encoding/json"
	"fmt"
	"math/rand"
	"net"
	"os"
	"runtime"
	"strconv"
	"strings"
	"sync"
	"sync/atomic"
	"syscall"
	"testing"
	"time"

	"github.com/wmnsk/go-pfcp/message"

	"github.com/free5gc/go-upf/internal/forwarder/perio"
	"github.com/free5gc/go-upf/internal/logger"
	"github.com/free5gc/go-upf/internal/report"
	"github.com/free5gc/go-upf/internal/zzverif/simk"
)

type vfScen struct {
	ID       string `json:"id"`
	Kind     string `json:"kind"`     // perio | mcast | stop | once | retain | tickfail | stopearly
	N        int    `json:"n"`        // sessions
	U        int    `json:"u"`        // periodic URRs per session
	Bulk     string `json:"bulk"`     // reassoc | delete
	Burst    int    `json:"burst"`    // notifications multicast during the slow netlink call
	Latency  int    `json:"latency"`  // ms the simulated kernel takes for that call
	Deadline int    `json:"deadline"` // seconds to wait for the heartbeat answer
	Seed     int64  `json:"seed"`
	Smfs     int    `json:"smfs"`
	Prods    int    `json:"prods"`
	RunMs    int    `json:"runms"`
	Stop     bool   `json:"stop"`
}

type vfScenOut struct {
	vfScen
	Answered  bool   `json:"answered"`  // heartbeat probe answered within the deadline
	Sig       string `json:"sig"`       // signature of the blocked cycle in the goroutine dump ("" if answered)
	Dump      string `json:"dump"`      // excerpt
	Emitted   int    `json:"emitted"`   // notifications emitted (once)
	Delivered int    `json:"delivered"` // downlink data reports received by the SMFs (once)
	Dups      int    `json:"dups"`
	OrderOk   bool   `json:"orderok"`
	Stopped   bool   `json:"stopped"` // all goroutines terminated after Stop
	Fatal     string `json:"fatal"`
	WallMs    int    `json:"wallms"`
	Bad       string `json:"bad"`  // retain / tickfail: what the statement forbids and was observed ("" = nothing)
	Note      string `json:"note"` // retain / tickfail: measured facts
}

func vfDump() string {
	buf := make([]byte, 8<<20)
	n := runtime.Stack(buf, true)
	return string(buf[:n])
}

// vfBlockedSig classifies a goroutine dump: which cycle keeps the event loop from making progress
func vfBlockedSig(d string) (string, string) {
	var ex []string
	loopInDel, loopInNl, perioInNotify, muxInNotify := false, false, false, false
	for _, g := range strings.Split(d, "\n\n") {
		if !strings.Contains(g, "go-upf") {
			continue
		}
		send := strings.Contains(g, "[chan send") || (strings.Contains(g, "[select") && strings.Contains(g, "NotifySessReport"))
		recv := strings.Contains(g, "[chan receive")
		inMain := strings.Contains(g, "pfcp.(*PfcpServer).main")
		switch {
		case inMain && send && (strings.Contains(g, "DelPeriodReportTimer") || strings.Contains(g, "AddPeriodReportTimer")):
			loopInDel = true
			ex = append(ex, "loop: "+vfFirstFrames(g))
		case inMain && recv && strings.Contains(g, "nl.(*Client).Do"):
			loopInNl = true
			ex = append(ex, "loop: "+vfFirstFrames(g))
		case send && strings.Contains(g, "NotifySessReport") && strings.Contains(g, "perio.(*Server).Serve"):
			perioInNotify = true
			ex = append(ex, "perio: "+vfFirstFrames(g))
		case send && strings.Contains(g, "NotifySessReport") && strings.Contains(g, "nl.(*Mux).Serve"):
			muxInNotify = true
			ex = append(ex, "mux: "+vfFirstFrames(g))
		case inMain:
			ex = append(ex, "loop(other): "+vfFirstFrames(g))
		}
	}
	sig := "other"
	if loopInDel && perioInNotify {
		sig = "loop-in-evtCh-send/perio-in-srCh-send"
	} else if loopInNl && muxInNotify {
		sig = "loop-in-netlink-wait/mux-in-srCh-send"
	}
	return sig, strings.Join(ex, " || ")
}

// vfLeft lists the goroutines of go-upf / its netlink library that are still alive
func vfLeft(d string) string {
	var ex []string
	for _, g := range strings.Split(d, "\n\n") {
		if strings.Contains(g, "zz_verif") && !strings.Contains(g, "internal/forwarder") && !strings.Contains(g, "PfcpServer") {
			continue
		}
		if strings.Contains(g, "vfRunScenario") || strings.Contains(g, "vfDump") {
			continue
		}
		if strings.Contains(g, "go-upf/internal/pfcp.(*PfcpServer)") || strings.Contains(g, "internal/forwarder") || strings.Contains(g, "go-nl.(*Mux)") ||
			strings.Contains(g, "Transaction).startTimer") {
			ex = append(ex, vfFirstFrames(g))
		}
	}
	r := strings.Join(ex, " || ")
	if len(r) > 3000 {
		r = r[:3000]
	}
	return r
}

// vfLeftSettled: goroutines of the UPF that are still there after Stop. Goroutines that have been released take a moment to
// return (longer on a busy machine): a goroutine counts as left only if it is still there after five seconds.
func vfLeftSettled() string {
	left := ""
	for t := time.Now(); time.Since(t) < 5*time.Second; {
		if left = vfLeft(vfDump()); left == "" {
			return ""
		}
		time.Sleep(20 * time.Millisecond)
	}
	return left
}

func vfFirstFrames(g string) string {
	ls := strings.Split(g, "\n")
	var out []string
	for _, l := range ls {
		if strings.HasPrefix(l, "goroutine ") || (strings.Contains(l, "(") && !strings.HasPrefix(l, "\t")) {
			out = append(out, strings.TrimSpace(l))
		}
		if len(out) >= 7 {
			break
		}
	}
	return strings.Join(out, " < ")
}

type vfStressEnv struct {
	k   int
	nw  *vfNet
	x   *vfExec
	st  *vf2Stack
	seq int32
}

func (en *vfStressEnv) send(peer string, e vfEvent) {
	vfNorm(&e)
	if e.SEID == "" {
		e.SEID = "0"
	}
	b, err := en.x.build(&e)
	if err != nil {
		return
	}
	_, _ = en.nw.conns[peer].WriteToUDP(b, &net.UDPAddr{IP: net.ParseIP(en.nw.upf), Port: 8805})
}

func (en *vfStressEnv) nseq() int { return int(atomic.AddInt32(&en.seq, 1)) }

// call sends a request and waits for the response with its sequence number
func (en *vfStressEnv) call(peer string, e vfEvent, d time.Duration) (message.Message, bool) {
	e.Seq = en.nseq()
	e.Peer = peer
	en.send(peer, e)
	c := en.nw.conns[peer]
	buf := make([]byte, 65536)
	deadline := time.Now().Add(d)
	for time.Now().Before(deadline) {
		_ = c.SetReadDeadline(time.Now().Add(50 * time.Millisecond))
		n, _, err := c.ReadFromUDP(buf)
		if err != nil {
			continue
		}
		m, err := message.Parse(buf[:n])
		if err != nil {
			continue
		}
		if int(m.Sequence()) == e.Seq && m.MessageType() != message.MsgTypeSessionReportRequest {
			_ = c.SetReadDeadline(time.Time{})
			return m, true
		}
	}
	_ = c.SetReadDeadline(time.Time{})
	return nil, false
}

func vfPerioOps(u, period int) []vfOp {
	ops := []vfOp{}
	for i := 1; i <= u; i++ {
		ops = append(ops, vfOp{Op: "create", Kind: "urr", ID: i, Meth: 2, MInfo: -1, Perio: true, Period: period})
	}
	return ops
}

func TestVerifStress(t *testing.T) {
	in, out := os.Getenv("VERIF_IN"), os.Getenv("VERIF_OUT")
	if in == "" || out == "" {
		t.Skip("VERIF_IN / VERIF_OUT not set")
	}
	k, _ := strconv.Atoi(os.Getenv("VERIF_K"))
	if k == 0 {
		k = 88
	}
	logger.Log.SetLevel(1)
	devnull, _ := os.OpenFile(os.DevNull, os.O_WRONLY, 0)
	logger.Log.SetOutput(devnull)
	vfGnbIP = func(i int) string { return fmt.Sprintf("127.%d.1.%d", k, i) }
	fi, err := os.Open(in)
	if err != nil {
		t.Fatalf("INFRA: %v", err)
	}
	defer fi.Close()
	fo, err := os.OpenFile(out, os.O_CREATE|os.O_WRONLY|os.O_APPEND, 0o644)
	if err != nil {
		t.Fatalf("INFRA: %v", err)
	}
	defer fo.Close()
	w := bufio.NewWriter(fo)
	defer w.Flush()
	enc := json.NewEncoder(w)
	sc := bufio.NewScanner(fi)
	sc.Buffer(make([]byte, 1<<20), 1<<26)
	for sc.Scan() {
		if strings.TrimSpace(sc.Text()) == "" {
			continue
		}
		var s vfScen
		if err := json.Unmarshal(sc.Bytes(), &s); err != nil {
			t.Fatalf("INFRA: %v", err)
		}
		var o vfScenOut
		if s.Kind == "perioclose" {
			o = vfPerioClose(s)
		} else {
			o = vfRunScenario(t, k, s)
		}
		_ = enc.Encode(o)
		w.Flush()
		if !o.Answered || !o.Stopped {
			// wedged or leaking goroutines: this process cannot host another scenario
			fmt.Printf("VERIF-STRESS ended after scenario %s (answered=%v stopped=%v)\n", s.ID, o.Answered, o.Stopped)
			return
		}
	}
	fmt.Printf("VERIF-STRESS done\n")
}

func vfRunScenario(t *testing.T, k int, s vfScen) vfScenOut {
	t0 := time.Now()
	o := vfScenOut{vfScen: s, Answered: true, Stopped: true, OrderOk: true}
	nw, err := vfNewNet(k)
	if err != nil {
		t.Fatalf("INFRA: %v", err)
	}
	defer nw.close()
	x := &vfExec{net: nw}
	logger.Log.ExitFunc = func(code int) { x.noteFatal(fmt.Sprintf("exit(%d) via logger", code)) }
	logger.Log.AddHook(vfFatalHook{x})
	VerifIdle = nil
	timeout := time.Hour
	if s.Kind == "stop" || s.Kind == "once" {
		timeout = 3 * time.Millisecond
	}
	if s.Kind == "retain" {
		timeout = vfRetainW / 2 // maxRetrans 1: the retention window is two time-outs
	}
	if s.Kind == "txstall" {
		timeout = 300 * time.Millisecond
	}
	st, err := vf2NewStack(k, 1, timeout)
	if err != nil {
		t.Fatalf("INFRA: %v", err)
	}
	st.installPsMarker()
	st.start()
	en := &vfStressEnv{k: k, nw: nw, x: x, st: st}
	if s.Kind == "stopearly" {
		// Stop at once: the event loop may not even have opened its socket yet
		if s.RunMs > 0 {
			time.Sleep(time.Duration(s.RunMs) * time.Microsecond)
		}
		if err := st.stop(8 * time.Second); err != nil {
			o.Stopped = false
			o.Fatal = "Stop right after Start: " + err.Error()
			_, o.Dump = vfBlockedSig(vfDump())
		} else if left := vfLeftSettled(); left != "" {
			o.Stopped = false
			o.Dump = left
			o.Fatal = "Stop right after Start returned, but goroutines of the UPF are still alive (the server keeps serving)"
		}
		o.WallMs = int(time.Since(t0) / time.Millisecond)
		return o
	}
	time.Sleep(30 * time.Millisecond)
	// the server may not have opened its socket yet (busy machine): a datagram sent before that is lost, so ask again
	assocOk := false
	for try := 0; try < 120 && !assocOk; try++ {
		_, assocOk = en.call("p1", vfEvent{T: "assoc", Node: "n1"}, 500*time.Millisecond)
	}
	if !assocOk {
		t.Fatalf("INFRA: association not answered within 60 s (address in use?)")
	}
	en.call("p2", vfEvent{T: "assoc", Node: "n2"}, 10*time.Second)
	probe := func() {
		dl := time.Duration(s.Deadline) * time.Second
		if dl == 0 {
			dl = 15 * time.Second
		}
		if _, ok := en.call("p2", vfEvent{T: "hb"}, dl); !ok {
			d := vfDump()
			sig, dump := vfBlockedSig(d)
			if sig == "other" || sig == "" {
				// no answer within the deadline, but no blocked cycle in the goroutine dump either: a slow (busy) machine is not a
				// wedged UPF. It gets six more deadlines; only a UPF that stays silent that long has stopped making progress.
				if _, ok2 := en.call("p2", vfEvent{T: "hb"}, 6*dl); ok2 {
					return
				}
				d = vfDump()
				sig, dump = vfBlockedSig(d)
			}
			o.Answered = false
			o.Sig, o.Dump = sig, dump
			if len(o.Dump) > 3000 {
				o.Dump = o.Dump[:3000]
			}
		}
	}
	switch s.Kind {
	case "perio":
		// N sessions with U periodic URRs each, a tick, and in the same breath the removal of all of them
		for i := 0; i < s.N; i++ {
			ops := vfPerioOps(s.U, 10)
			if _, ok := en.call("p1", vfEvent{T: "est", Node: "n1", CP: strconv.Itoa(1000 + i), Ops: ops}, 10*time.Second); !ok {
				t.Fatalf("INFRA: establishment %d not answered", i)
			}
		}
		if !st.psSync(30 * time.Second) {
			t.Fatalf("INFRA: periodic server did not drain")
		}
		nw.drain()
		st.ps.VerifTick(10 * time.Second)
		if s.Bulk == "delete" {
			for i := 0; i < s.N; i++ {
				e := vfEvent{T: "del", SEID: strconv.Itoa(i + 1), Peer: "p1", Seq: en.nseq()}
				en.send("p1", e)
			}
		} else {
			e := vfEvent{T: "assoc", Node: "n1", Peer: "p1", Seq: en.nseq()}
			en.send("p1", e)
		}
		probe()
	case "mcast":
		// a netlink call that takes Latency ms while Burst notifications arrive
		en.call("p1", vfEvent{T: "est", Node: "n1", CP: "55", Ops: []vfOp{{Op: "create", Kind: "far", ID: 1, AA: 12, Teid: 5, Gnb: 1, Meth: -1, MInfo: -1},
			{Op: "create", Kind: "pdr", ID: 1, Far: 1, Meth: -1, MInfo: -1}}}, 10*time.Second)
		if s.Latency < 0 {
			// the burst alone: nothing else occupies the loop, it must drain whatever arrives
			for j := 0; j < s.Burst; j++ {
				_ = st.k.EmitBuffer(1, 1, 12, vf2Payload(j))
			}
			probe()
			break
		}
		var once sync.Once
		st.k.SetLocked(func() {
			st.k.Latency = func(r *simk.Req) time.Duration {
				if r.Op != "create" || r.Kind != "qer" {
					return 0
				}
				once.Do(func() {
					for j := 0; j < s.Burst; j++ {
						_ = st.k.EmitBuffer(1, 1, 12, vf2Payload(j))
					}
				})
				return time.Duration(s.Latency) * time.Millisecond
			}
		})
		e := vfEvent{T: "mod", SEID: "1", Peer: "p1", Seq: en.nseq(), Ops: []vfOp{{Op: "create", Kind: "qer", ID: 7, Meth: -1, MInfo: -1}}}
		en.send("p1", e)
		probe()
	case "retain":
		vfRetain(en, &s, &o)
		probe()
	case "rxflood":
		vfRxFlood(en, &s, &o)
		probe()
	case "txstall":
		vfTxStall(en, &s, &o)
		probe()
	case "regflood":
		vfRegFlood(en, &s, &o)
		probe()
	case "tickfail":
		vfTickFail(en, &s, &o)
		probe()
	case "once", "stop":
		vfConcurrent(en, &s, &o)
		if s.Kind == "once" {
			probe()
		}
	}
	o.Fatal = x.takeFatal()
	if o.Answered {
		if err := st.stop(15 * time.Second); err != nil {
			o.Stopped = false
			_, o.Dump = vfBlockedSig(vfDump())
			if o.Fatal == "" {
				o.Fatal = err.Error()
			}
		}
	}
	if o.Stopped && o.Answered {
		// everything of go-upf must be gone: timer callbacks, report producers, tickers
		if left := vfLeftSettled(); left != "" {
			o.Stopped = false
			o.Dump = left
			if o.Fatal == "" {
				o.Fatal = "goroutines of the UPF still alive after Stop"
			}
		}
	}
	if s.Kind == "txstall" && o.Answered && o.Stopped {
		n := len(st.srv.txTrans) // the loop has exited: nobody owns the table any more
		o.Note += fmt.Sprintf("; tx transactions left after Stop: %d", n)
		if n > 0 && o.Bad == "" {
			o.Bad = fmt.Sprintf("C09:%d report request(s) still kept although every request had been answered or given up (bookkeeping not released)", n)
		}
	}
	o.WallMs = int(time.Since(t0) / time.Millisecond)
	return o
}

// ---------------------------------------------------------------- real timers (no injected expiries)

const vfRetainW = 1200 * time.Millisecond

// vfCreates counts the netlink create requests the simulated kernel has seen for FAR id of session seid
func vfCreates(k *simk.Kernel, log *[]simk.Req, seid uint64, id uint64) int {
	*log = append(*log, k.TakeLog()...)
	n := 0
	for _, r := range *log {
		if r.Op == "create" && r.Kind == "far" && r.SEID == seid && r.ID == id {
			n++
		}
	}
	return n
}

// vfRetain (C06 with the real retention timers): request R1, its duplicate inside the window, the window elapses, a NEW
// request R2 with the same sequence number, its duplicate inside R2's window. R2 must be executed once. Every verdict is
// conditional on measured times: a duplicate counts only if its answer arrived within 0.8 W of the moment R2 was sent.
func vfRetain(en *vfStressEnv, s *vfScen, o *vfScenOut) {
	W := vfRetainW
	m, ok := en.call("p1", vfEvent{T: "est", Node: "n1", CP: "70", Ops: []vfOp{{Op: "create", Kind: "far", ID: 1, Meth: -1, MInfo: -1}}}, 10*time.Second)
	if !ok {
		o.Note = "establishment not answered"
		return
	}
	var seid uint64
	if r, ok := m.(*message.SessionEstablishmentResponse); ok && r.UPFSEID != nil {
		if f, err := r.UPFSEID.FSEID(); err == nil {
			seid = f.SEID
		}
	}
	var log []simk.Req
	req := func(far int, seq int) vfEvent {
		return vfEvent{T: "mod", SEID: strconv.FormatUint(seid, 10), Peer: "p1", Seq: seq,
			Ops: []vfOp{{Op: "create", Kind: "far", ID: far, Meth: -1, MInfo: -1}}}
	}
	// exchange sends e and waits for the Modification Response with its sequence number
	exchange := func(e vfEvent) (time.Duration, bool) {
		t := time.Now()
		en.send("p1", e)
		c := en.nw.conns["p1"]
		buf := make([]byte, 65536)
		for time.Since(t) < 3*time.Second {
			_ = c.SetReadDeadline(time.Now().Add(20 * time.Millisecond))
			n, _, err := c.ReadFromUDP(buf)
			if err == nil && n >= 16 && buf[1] == 53 && int(buf[12])<<16|int(buf[13])<<8|int(buf[14]) == e.Seq {
				_ = c.SetReadDeadline(time.Time{})
				return time.Since(t), true
			}
		}
		_ = c.SetReadDeadline(time.Time{})
		return time.Since(t), false
	}
	seq := 4000 + int(s.Seed%1000)
	t0 := time.Now()
	at := func(d time.Duration) {
		if w := d - time.Since(t0); w > 0 {
			time.Sleep(w)
		}
	}
	exchange(req(50, seq)) // R1
	at(W * 7 / 10)
	exchange(req(50, seq)) // duplicate of R1: restarts nothing, must not arm anything that fires later
	c1 := vfCreates(en.st.k, &log, seid, 50)
	at(W * 13 / 10)
	tR2 := time.Now()
	exchange(req(51, seq)) // R2: R1's window has elapsed, this is a new request
	c2 := vfCreates(en.st.k, &log, seid, 51)
	at(W * 19 / 10)
	_, okd := exchange(req(51, seq)) // duplicate of R2, well inside R2's window
	late := time.Since(tR2)
	c3 := vfCreates(en.st.k, &log, seid, 51)
	// an UNANSWERED request (establishment for a node that is not associated) occupies its sequence number for the window
	// only: long after it, a Heartbeat Request with that number from the same socket is a new request and is answered
	seq2 := seq + 1
	en.send("p1", vfEvent{T: "est", Node: "n4", CP: "9", Peer: "p1", Seq: seq2})
	time.Sleep(W * 3) // three windows: the retention timer has fired also on a very busy machine
	hbAnswered := false
	{
		e := vfEvent{T: "hb", Peer: "p1", Seq: seq2}
		en.send("p1", e)
		c := en.nw.conns["p1"]
		buf := make([]byte, 65536)
		for t := time.Now(); time.Since(t) < 8*time.Second; {
			_ = c.SetReadDeadline(time.Now().Add(20 * time.Millisecond))
			n, _, err := c.ReadFromUDP(buf)
			if err == nil && n >= 8 && buf[1] == 2 && int(buf[4])<<16|int(buf[5])<<8|int(buf[6]) == seq2 {
				hbAnswered = true
				break
			}
		}
		_ = c.SetReadDeadline(time.Time{})
	}
	// a request of a type the UPF has no handler for (PFD Management), and half a window later a REAL request with the same
	// sequence number from the same socket: it is either taken for a retransmission (ignored) or executed - but its own
	// duplicate, sent while ITS window is certainly still open, must not be executed again
	seq3 := seq + 2
	if b, err := message.NewPFDManagementRequest(uint32(seq3)).Marshal(); err == nil {
		_, _ = en.nw.conns["p1"].WriteToUDP(b, &net.UDPAddr{IP: net.ParseIP(en.nw.upf), Port: 8805})
	}
	time.Sleep(W / 2)
	tR3 := time.Now()
	exchange(req(52, seq3))
	c4 := vfCreates(en.st.k, &log, seid, 52)
	if w := W*8/10 - time.Since(tR3); w > 0 {
		time.Sleep(w) // 0.8 W after the real request = 1.3 W after the PFD request
	}
	exchange(req(52, seq3))
	late3 := time.Since(tR3)
	c5 := vfCreates(en.st.k, &log, seid, 52)
	o.Note = fmt.Sprintf("W=%v creates(R1)=%d creates(R2)=%d after-duplicate=%d duplicate-answered=%v %v after R2; heartbeat re-using the number of an unanswered request 3 W later answered=%v; request after an unhandled message type with its number: creates %d, after its duplicate %v later: %d",
		W, c1, c2, c3, okd, late, hbAnswered, c4, late3, c5)
	if c4 == 1 && c5 > 1 && late3 < W*95/100 {
		o.Bad = "C06:a duplicate inside the retention window was executed again after a message of an unhandled type had used the sequence number (real timers)"
	}
	if !hbAnswered {
		o.Bad = "C06:bookkeeping of an unanswered request kept after its retention window: a later request with that sequence number is ignored (real timers)"
	}
	if c1 > 1 {
		o.Bad = "C06:a duplicate inside the retention window was executed again (real timers)"
	}
	if c2 == 1 && c3 > 1 && late < W*8/10 {
		o.Bad = "C06:a duplicate inside the retention window of a later request with the same sequence number was executed again (real timers)"
	}
}

// vfTxStall (C09 with the real retransmission timers): more report requests outstanding than the time-out queue holds, and the
// event loop busy in one slow data-plane call while all their timers fire. Every request must still be retransmitted exactly
// the configured number of times (1) - a time-out notification must not get lost because the loop was busy.
func vfTxStall(en *vfStressEnv, s *vfScen, o *vfScenOut) {
	st := en.st
	if _, ok := en.call("p1", vfEvent{T: "est", Node: "n1", CP: "72", Ops: []vfOp{{Op: "create", Kind: "far", ID: 1, AA: 12, Teid: 5, Gnb: 1, Meth: -1, MInfo: -1},
		{Op: "create", Kind: "urr", ID: 1, Meth: 2, MInfo: -1}, {Op: "create", Kind: "pdr", ID: 1, Far: 1, Meth: -1, MInfo: -1}}}, 10*time.Second); !ok {
		o.Note = "establishment not answered"
		return
	}
	en.nw.drain()
	n := s.N
	if n == 0 {
		n = 70
	}
	// the next Update FAR takes two seconds in the data plane
	var slow int32
	st.k.SetLocked(func() {
		st.k.Latency = func(r *simk.Req) time.Duration {
			if r.Op == "update" && r.Kind == "far" && atomic.CompareAndSwapInt32(&slow, 0, 1) {
				return 2 * time.Second
			}
			return 0
		}
	})
	for j := 0; j < n; j++ {
		_ = st.k.EmitBuffer(1, 1, 12, vf2Payload(j)) // BUFF|NOCP: one downlink data report each
	}
	time.Sleep(60 * time.Millisecond) // the n report requests are out, their timers (300 ms) running
	en.send("p1", vfEvent{T: "mod", SEID: "1", Peer: "p1", Seq: en.nseq(), Ops: []vfOp{{Op: "update", Kind: "far", ID: 1, AA: 12, Meth: -1, MInfo: -1}}})
	// while the loop is stalled: a notification whose Session Report Request does not fit into a datagram. When the loop comes
	// back it finds this notification next to a full time-out queue; the send fails, the request is given up after its retries
	// like any other and its bookkeeping released (looked at after Stop, when the loop no longer owns the table)
	time.Sleep(100 * time.Millisecond)
	big := report.SessReport{SEID: 1}
	for u := 0; u < 1500; u++ {
		big.Reports = append(big.Reports, report.USAReport{URRID: 1, StartTime: vfT0, EndTime: vfT0})
	}
	go st.srv.NotifySessReport(big)
	// count the copies of every report request for 5 s (nobody answers them)
	copies := map[int]int{}
	c := en.nw.conns["p1"]
	buf := make([]byte, 65536)
	allTwice := func() bool {
		if len(copies) < n {
			return false
		}
		for _, v := range copies {
			if v < 2 {
				return false
			}
		}
		return true
	}
	// at least 5 s (a third copy would show), at most 20 s (a busy machine gets the time it needs before "only once" counts)
	for t := time.Now(); time.Since(t) < 20*time.Second && !(time.Since(t) > 5*time.Second && allTwice()); {
		_ = c.SetReadDeadline(time.Now().Add(50 * time.Millisecond))
		k, _, err := c.ReadFromUDP(buf)
		if err == nil && k >= 16 && buf[1] == 56 {
			copies[int(buf[12])<<16|int(buf[13])<<8|int(buf[14])]++
		}
	}
	_ = c.SetReadDeadline(time.Time{})
	st.k.SetLocked(func() { st.k.Latency = nil })
	once, twice, more := 0, 0, 0
	for _, v := range copies {
		switch {
		case v == 1:
			once++
		case v == 2:
			twice++
		default:
			more++
		}
	}
	o.Note = fmt.Sprintf("%d report requests seen: %d sent twice (original + 1 retransmission), %d only once, %d more often; slow call taken: %v", len(copies), twice, once, more, slow == 1)
	if slow == 1 && len(copies) >= n && once > 0 {
		o.Bad = "C09:report requests were not retransmitted on their timer expiry: time-out notifications got lost while the event loop was busy (real timers)"
	}
	if more > 0 {
		o.Bad = "C09:a report request was retransmitted more often than configured (real timers)"
	}
}

// vfRegFlood (C03 / C15): hundreds of periodic URRs are created while the periodic server is busy with a slow query, more than
// its event queue holds. Each of them must be registered all the same: the next tick of their period queries every one.
func vfRegFlood(en *vfStressEnv, s *vfScen, o *vfScenOut) {
	st := en.st
	if _, ok := en.call("p1", vfEvent{T: "est", Node: "n1", CP: "73", Ops: vfPerioOps(1, 10)}, 10*time.Second); !ok {
		o.Note = "establishment not answered"
		return
	}
	st.psSync(10 * time.Second)
	st.k.TakeLog()
	var slow int32
	st.k.SetLocked(func() {
		st.k.Latency = func(r *simk.Req) time.Duration {
			if r.Op == "mquery" && atomic.CompareAndSwapInt32(&slow, 0, 1) {
				return 1200 * time.Millisecond
			}
			return 0
		}
	})
	st.ps.VerifTick(10 * time.Second) // the server goes into the slow query
	time.Sleep(30 * time.Millisecond)
	nsess, per := 7, 100
	for i := 0; i < nsess; i++ {
		if _, ok := en.call("p1", vfEvent{T: "est", Node: "n1", CP: strconv.Itoa(2000 + i), Ops: vfPerioOps(per, 20)}, 15*time.Second); !ok {
			o.Note = fmt.Sprintf("establishment %d not answered", i)
			return
		}
	}
	st.k.SetLocked(func() { st.k.Latency = nil })
	if !st.psSync(20 * time.Second) {
		o.Note = "periodic server did not drain"
		return
	}
	st.k.TakeLog()
	st.ps.VerifTick(20 * time.Second)
	st.psSync(20 * time.Second)
	oids := map[[2]uint64]bool{}
	for _, r := range st.k.TakeLog() {
		if r.Op == "mquery" {
			for _, x := range r.OIDs {
				oids[x] = true
			}
		}
	}
	o.Note = fmt.Sprintf("%d periodic URRs created while the periodic server was in a slow query (taken: %v); %d of them queried on the next tick of their period", nsess*per, slow == 1, len(oids))
	if slow == 1 && len(oids) < nsess*per {
		o.Bad = "C15:URRs with the periodic trigger were created but are not queried on the tick of their period (registration lost while the periodic server was busy)"
	}
}

// vfRxFlood (C06): thousands of answered requests inside one retention window (an hour here), then a copy of an early one:
// it must still be recognised as a retransmission, however many transactions are being retained
func vfRxFlood(en *vfStressEnv, s *vfScen, o *vfScenOut) {
	m, ok := en.call("p1", vfEvent{T: "est", Node: "n1", CP: "70", Ops: []vfOp{{Op: "create", Kind: "far", ID: 1, Meth: -1, MInfo: -1}}}, 10*time.Second)
	if !ok {
		o.Note = "establishment not answered"
		return
	}
	var seid uint64
	if r, ok := m.(*message.SessionEstablishmentResponse); ok && r.UPFSEID != nil {
		if f, err := r.UPFSEID.FSEID(); err == nil {
			seid = f.SEID
		}
	}
	var log []simk.Req
	first := vfEvent{T: "mod", SEID: strconv.FormatUint(seid, 10), Ops: []vfOp{{Op: "create", Kind: "far", ID: 60, Meth: -1, MInfo: -1}}}
	if _, ok := en.call("p1", first, 10*time.Second); !ok {
		o.Note = "modification not answered"
		return
	}
	seqFirst := int(atomic.LoadInt32(&en.seq))
	en.call("p1", vfEvent{T: "mod", SEID: strconv.FormatUint(seid, 10), Ops: []vfOp{{Op: "remove", Kind: "far", ID: 60, Meth: -1, MInfo: -1}}}, 10*time.Second)
	n := s.N
	if n == 0 {
		n = 5000
	}
	c := en.nw.conns["p2"]
	buf := make([]byte, 65536)
	got := 0
	for i := 0; i < n; i++ {
		en.send("p2", vfEvent{T: "hb", Peer: "p2", Seq: en.nseq()})
		if i%64 == 63 { // keep the socket buffers short
			for {
				_ = c.SetReadDeadline(time.Now().Add(2 * time.Millisecond))
				if _, _, err := c.ReadFromUDP(buf); err != nil {
					break
				}
				got++
			}
		}
	}
	_ = c.SetReadDeadline(time.Time{})
	c1 := vfCreates(en.st.k, &log, seid, 60)
	// the early request again, byte for byte
	first.Seq, first.Peer = seqFirst, "p1"
	en.send("p1", first)
	en.call("p1", vfEvent{T: "hb"}, 5*time.Second) // barrier: the copy has been dealt with
	c2 := vfCreates(en.st.k, &log, seid, 60)
	o.Note = fmt.Sprintf("%d heartbeats (%d answers read) between a request and its copy; creates of FAR 60: %d before, %d after the copy", n, got, c1, c2)
	if c1 == 1 && c2 > 1 {
		o.Bad = "C06:a retransmitted request was executed again because many other requests had been received in between"
	}
}

type vfNopHandler struct{}

func (vfNopHandler) NotifySessReport(report.SessReport)      {}
func (vfNopHandler) PopBufPkt(uint64, uint16) ([]byte, bool) { return nil, false }

// vfPerioClose (C17): the periodic server is closed while its (very short) periods are ticking, again and again: closing it
// must release the timers without a fault. A fault here is a panic in a goroutine nobody recovers: the process dies.
func vfPerioClose(s vfScen) vfScenOut {
	o := vfScenOut{vfScen: s, Answered: true, Stopped: true, OrderOk: true}
	t0 := time.Now()
	rounds := s.N
	if rounds == 0 {
		rounds = 300
	}
	h := vfNopHandler{}
	for i := 0; i < rounds; i++ {
		var wg sync.WaitGroup
		ps, err := perio.OpenServer(&wg)
		if err != nil {
			o.Fatal = err.Error()
			break
		}
		ps.Handle(h, func(m map[uint64][]uint32) (map[uint64][]report.USAReport, error) { return nil, nil })
		ps.AddPeriodReportTimer(1, 1, 20*time.Microsecond)
		ps.AddPeriodReportTimer(2, 1, 30*time.Microsecond)
		time.Sleep(time.Duration(50+i%200) * time.Microsecond)
		ps.Close()
		done := make(chan struct{})
		go func() { wg.Wait(); close(done) }()
		select {
		case <-done:
		case <-time.After(5 * time.Second):
			o.Stopped = false
			o.Fatal = fmt.Sprintf("round %d: goroutines of the periodic server still running 5 s after Close", i)
			_, o.Dump = vfBlockedSig(vfDump())
		}
		if !o.Stopped {
			break
		}
	}
	o.Note = fmt.Sprintf("%d open / tick / close rounds with periods of 20 and 30 microseconds", rounds)
	o.WallMs = int(time.Since(t0) / time.Millisecond)
	return o
}

// vfTickFail (C15 / C18 with the real period tickers): a periodic URR with a period of one second; one multi-report query
// fails; the ticks after it must report again.
func vfTickFail(en *vfStressEnv, s *vfScen, o *vfScenOut) {
	st := en.st
	if _, ok := en.call("p1", vfEvent{T: "est", Node: "n1", CP: "71", Ops: vfPerioOps(2, 1)}, 10*time.Second); !ok {
		o.Note = "establishment not answered"
		return
	}
	// count periodic session reports arriving at the SMF
	count := func(d time.Duration) int {
		c := en.nw.conns["p1"]
		buf := make([]byte, 65536)
		n := 0
		for t := time.Now(); time.Since(t) < d; {
			_ = c.SetReadDeadline(time.Now().Add(50 * time.Millisecond))
			k, _, err := c.ReadFromUDP(buf)
			if err == nil && k >= 16 && buf[1] == 56 {
				n++
			}
		}
		_ = c.SetReadDeadline(time.Time{})
		return n
	}
	before := count(2500 * time.Millisecond)
	var failed int32
	st.k.SetLocked(func() {
		st.k.Fail = func(r *simk.Req) int {
			if r.Op == "mquery" && atomic.CompareAndSwapInt32(&failed, 0, 1) {
				return int(syscall.EIO)
			}
			return 0
		}
	})
	during := count(1800 * time.Millisecond)
	after := 0
	if atomic.LoadInt32(&failed) == 1 {
		after = count(8 * time.Second)
	}
	st.k.SetLocked(func() { st.k.Fail = nil })
	o.Note = fmt.Sprintf("periodic reports: %d before, %d around the failing query, %d in the 8 s after it (query failed: %v)", before, during, after, failed == 1)
	if before >= 1 && failed == 1 && after == 0 {
		o.Bad = "C15:after one failed multi-report query the period never ticked again: registered URRs are no longer queried (real tickers)"
	}
}

// vfConcurrent: SMFs issuing random valid histories with duplicates, report producers multicasting buffer
// notifications and usage reports, ticks, millisecond transaction timers; optionally Stop in the middle.
func vfConcurrent(en *vfStressEnv, s *vfScen, o *vfScenOut) {
	st := en.st
	rng := rand.New(rand.NewSource(s.Seed))
	// a session whose FAR buffers with notification: every BUFFER multicast must yield exactly one downlink data report
	en.call("p1", vfEvent{T: "est", Node: "n1", CP: "77", Ops: []vfOp{{Op: "create", Kind: "far", ID: 1, AA: 12, Teid: 5, Gnb: 1, Meth: -1, MInfo: -1},
		{Op: "create", Kind: "urr", ID: 1, Meth: 2, MInfo: -1, Perio: true, Period: 10},
		{Op: "create", Kind: "pdr", ID: 1, Far: 1, URRs: []int{1}, Meth: -1, MInfo: -1}, {Op: "create", Kind: "pdr", ID: 2, Far: 1, Meth: -1, MInfo: -1}}}, 10*time.Second)
	en.nw.drain()
	var wg sync.WaitGroup
	stopAll := make(chan struct{})
	// the SMF that owns session 1 answers Session Report Requests: promptly, about one retransmission
	// time-out later, or not at all - and counts the distinct downlink data reports it receives
	var seenMu sync.Mutex
	seen := map[int]int{}
	respDone := make(chan struct{})
	respStop := make(chan struct{})
	go func() {
		defer close(respDone)
		c := en.nw.conns["p1"]
		r := rand.New(rand.NewSource(s.Seed*131 + 7))
		buf := make([]byte, 65536)
		upf := &net.UDPAddr{IP: net.ParseIP(en.nw.upf), Port: 8805}
		for {
			select {
			case <-respStop:
				_ = c.SetReadDeadline(time.Time{})
				return
			default:
			}
			_ = c.SetReadDeadline(time.Now().Add(20 * time.Millisecond))
			n, _, err := c.ReadFromUDP(buf)
			if err != nil || n < 16 || buf[1] != 56 {
				continue
			}
			ab := en.x.abstract("p1", append([]byte{}, buf[:n]...))
			if len(ab.DLDR) == 1 {
				seenMu.Lock()
				seen[ab.Seq]++
				seenMu.Unlock()
			}
			if r.Intn(10) < 7 {
				rsp := vfEvent{T: "rptrsp", SEID: "1", Seq: ab.Seq}
				vfNorm(&rsp)
				b, err := en.x.build(&rsp)
				if err == nil {
					d := time.Duration(r.Intn(6000)) * time.Microsecond
					time.AfterFunc(d, func() { _, _ = c.WriteToUDP(b, upf) })
				}
			}
		}
	}()
	stopTicks := make(chan struct{}) // tickers are stopped by the periodic server itself before it closes
	var tickMu sync.RWMutex          // producers inject ticks under RLock; Stop waits for those in flight by taking the write lock
	var emitted int64
	// SMF traffic
	for i := 0; i < s.Smfs; i++ {
		wg.Add(1)
		go func(i int, r *rand.Rand) {
			defer wg.Done()
			peer := "p2"
			if i%2 == 1 {
				peer = "p3"
			}
			node := "n" + peer[1:]
			var last vfEvent
			for {
				select {
				case <-stopAll:
					return
				default:
				}
				var e vfEvent
				switch r.Intn(7) {
				case 0:
					e = vfEvent{T: "assoc", Node: node}
				case 1, 2:
					e = vfEvent{T: "est", Node: node, CP: strconv.Itoa(r.Intn(5)), Ops: []vfOp{{Op: "create", Kind: "far", ID: 1 + r.Intn(2), Meth: -1, MInfo: -1},
						{Op: "create", Kind: "urr", ID: 1, Meth: 2, MInfo: -1, Perio: r.Intn(2) == 0, Period: 10}}}
				case 3, 4:
					e = vfEvent{T: "mod", SEID: strconv.Itoa(2 + r.Intn(6)), Ops: []vfOp{{Op: "query", Kind: "urr", ID: 1, Meth: -1, MInfo: -1},
						{Op: "update", Kind: "far", ID: 1, AA: []int{2, 4, 12}[r.Intn(3)], Meth: -1, MInfo: -1}}}
				case 5:
					e = vfEvent{T: "del", SEID: strconv.Itoa(2 + r.Intn(6))}
				default:
					e = last // duplicate
				}
				if e.T == "" {
					e = vfEvent{T: "hb"}
				}
				if e.Seq == 0 {
					e.Seq = en.nseq()
				}
				e.Peer = peer
				last = e
				en.send(peer, e)
				time.Sleep(time.Duration(r.Intn(300)) * time.Microsecond)
			}
		}(i, rand.New(rand.NewSource(s.Seed*31+int64(i))))
	}
	// report producers: buffer notifications for session 1 (PDR 1 / 2 alternate per producer), usage reports, ticks
	per := 40 + rng.Intn(60)
	for p := 0; p < s.Prods; p++ {
		wg.Add(1)
		go func(p int, r *rand.Rand) {
			defer wg.Done()
			for j := 0; j < per; j++ {
				select {
				case <-stopAll:
					return
				default:
				}
				// stay below the report-queue size: the wedge of C18 (known finding) is not what this scenario is after
				for len(st.srv.srCh) > 48 {
					time.Sleep(500 * time.Microsecond)
					select {
					case <-stopAll:
						return
					default:
					}
				}
				switch {
				case p%4 == 3:
					tickMu.RLock()
					select {
					case <-stopTicks:
						tickMu.RUnlock()
						return
					default:
					}
					st.ps.VerifTick(10 * time.Second)
					tickMu.RUnlock()
				case p%4 == 2:
					_, _ = st.k.EmitReports([][3]uint64{{1, 1, 2}, {uint64(2 + r.Intn(5)), 1, 2}})
				default:
					_ = st.k.EmitBuffer(1, uint16(1+p%2), 12, vf2Payload(p*100000+j))
					atomic.AddInt64(&emitted, 1)
				}
				time.Sleep(time.Duration(1000+r.Intn(2000)) * time.Microsecond)
			}
		}(p, rand.New(rand.NewSource(s.Seed*77+int64(p))))
	}
	if s.Stop {
		time.Sleep(time.Duration(s.RunMs) * time.Millisecond)
		// Stop while everything is in flight; the kernel-side producers keep going for a moment, as in production
		close(stopTicks)
		tickMu.Lock() // every tick injection that had begun is through; later ones see stopTicks
		tickMu.Unlock()
		err := st.stop(15 * time.Second)
		close(stopAll)
		wg.Wait()
		close(respStop)
		<-respDone
		o.Stopped = err == nil
		if err != nil {
			full := vfDump()
			o.Dump = vfLeft(full)
			if os.Getenv("VERIF_FULLDUMP") != "" {
				_ = os.WriteFile(os.Getenv("VERIF_FULLDUMP"), []byte(full), 0o644)
			}
			o.Fatal = err.Error()
		}
		o.Answered = true
		o.Emitted = int(atomic.LoadInt64(&emitted))
		// (stop() has been called already; make the common exit path skip it)
		en.st = nil
		return
	}
	// no Stop: let the producers finish, stop the SMFs, wait for quiescence and count
	time.Sleep(time.Duration(s.RunMs) * time.Millisecond)
	close(stopAll)
	wg.Wait()
	st.mcSync(20 * time.Second)
	st.psSync(20 * time.Second)
	o.Emitted = int(atomic.LoadInt64(&emitted))
	// every emitted notification has been handed to the loop; its report request still has to travel through the loop and
	// the SMF's socket to the counting goroutine: wait for the count (no verdict from a fixed pause on a busy machine)
	for t := time.Now(); time.Since(t) < 20*time.Second; {
		seenMu.Lock()
		n := len(seen)
		seenMu.Unlock()
		if n >= o.Emitted {
			break
		}
		time.Sleep(20 * time.Millisecond)
	}
	time.Sleep(100 * time.Millisecond) // a duplicate would have to show now
	close(respStop)
	<-respDone
	// retransmissions (millisecond timers) repeat a sequence number; distinct notifications have distinct numbers
	seenMu.Lock()
	o.Delivered = len(seen)
	seenMu.Unlock()
}
