//go:build verif

package buffnetlink

import "github.com/khirono/go-nl"

// VerifNewServer registers a Server for the notifications arriving on conn, exactly like OpenServer
// does for the kernel's multicast socket (verification only).
func VerifNewServer(mux *nl.Mux, conn nl.Conner) (*Server, error) {
	s := &Server{mux: mux}
	err := mux.PushHandler(conn, s)
	return s, err
}
