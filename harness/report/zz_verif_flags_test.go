//go:build verif

package report

// L0 executor for C19: evaluates the REAL flag decoders / encoders of package report on the
// words produced by TLC (spec/Flags.tla) or by the seeded generator and records what they said.

import (
	"bufio"
	"encoding/json"
	"fmt"
	"os"
	"reflect"
	"testing"

	"github.com/wmnsk/go-pfcp/ie"
)

type vfFlagIn struct {
	ID    string   `json:"id"`
	F     string   `json:"f"` // aa | rt | urt | map | vm
	N     int      `json:"n"` // number of octets handed to Unmarshal
	W     int      `json:"w"` // the octets as little-endian number (octet 5 = least significant)
	MNOP  bool     `json:"mnop"`
	Names []string `json:"names"` // accessor names to query (from the specification's table)
}

type vfFlagOut struct {
	vfFlagIn
	Err     bool     `json:"err"`
	Set     []string `json:"set"`     // accessors that answered true
	Missing []string `json:"missing"` // names without accessor
	Enc     int      `json:"enc"`     // re-encoded IE payload as little-endian number (-1: none)
	EncLen  int      `json:"enclen"`
	Fields  []string `json:"fields"` // vm: value fields present in the encoded IE
	Panic   string   `json:"panic"`
}

func vfOctets(w, n int) []byte {
	b := make([]byte, n)
	for i := 0; i < n; i++ {
		b[i] = byte(w >> (8 * i))
	}
	return b
}

func vfAsk(recv interface{}, names []string, o *vfFlagOut) {
	v := reflect.ValueOf(recv)
	for _, nm := range names {
		m := v.MethodByName(nm)
		if !m.IsValid() {
			o.Missing = append(o.Missing, nm)
			continue
		}
		r := m.Call(nil)
		if len(r) == 1 && r[0].Kind() == reflect.Bool && r[0].Bool() {
			o.Set = append(o.Set, nm)
		}
	}
}

func vfLE(p []byte) int {
	x := 0
	for i := 0; i < len(p) && i < 4; i++ {
		x |= int(p[i]) << (8 * i)
	}
	return x
}

func TestVerifFlags(t *testing.T) {
	in, out := os.Getenv("VERIF_IN"), os.Getenv("VERIF_OUT")
	if in == "" || out == "" {
		t.Skip("VERIF_IN / VERIF_OUT not set")
	}
	fi, err := os.Open(in)
	if err != nil {
		t.Fatalf("INFRA: %v", err)
	}
	defer fi.Close()
	fo, err := os.Create(out)
	if err != nil {
		t.Fatalf("INFRA: %v", err)
	}
	defer fo.Close()
	w := bufio.NewWriterSize(fo, 1<<20)
	defer w.Flush()
	enc := json.NewEncoder(w)
	sc := bufio.NewScanner(fi)
	sc.Buffer(make([]byte, 1<<20), 1<<26)
	n := 0
	for sc.Scan() {
		var v vfFlagIn
		if err := json.Unmarshal(sc.Bytes(), &v); err != nil {
			t.Fatalf("INFRA: %v", err)
		}
		o := vfFlagOut{vfFlagIn: v, Set: []string{}, Missing: []string{}, Fields: []string{}, Enc: -1}
		func() {
			defer func() {
				if p := recover(); p != nil {
					o.Panic = fmt.Sprint(p)
				}
			}()
			switch v.F {
			case "aa":
				var a ApplyAction
				if err := a.Unmarshal(vfOctets(v.W, v.N)); err != nil {
					o.Err = true
					return
				}
				vfAsk(&a, v.Names, &o)
				o.Enc = int(a.Flags)
			case "rt":
				var r ReportingTrigger
				if err := r.Unmarshal(vfOctets(v.W, v.N)); err != nil {
					o.Err = true
					return
				}
				vfAsk(&r, v.Names, &o)
				p := r.IE().Payload
				o.Enc, o.EncLen = vfLE(p), len(p)
			case "urt":
				u := UsageReportTrigger{Flags: uint32(v.W)}
				vfAsk(&u, v.Names, &o)
				x := u.IE()
				if x.Type != ie.UsageReportTrigger {
					o.Panic = "wrong IE type"
				}
				o.Enc, o.EncLen = vfLE(x.Payload), len(x.Payload)
			case "map":
				var u UsageReportTrigger
				u.SetReportingTrigger(uint32(v.W))
				vfAsk(&u, v.Names, &o)
				o.Enc = int(u.Flags)
			case "vm":
				m := VolumeMeasure{Flags: uint8(v.W), TotalVolume: 11, UplinkVolume: 22, DownlinkVolume: 33,
					TotalPktNum: 44, UplinkPktNum: 55, DownlinkPktNum: 66}
				m.SetFlags(v.MNOP)
				x := m.IE()
				f, err := x.VolumeMeasurement()
				if err != nil {
					o.Err = true
					return
				}
				o.Enc, o.EncLen = int(f.Flags), len(x.Payload)
				chk := func(has bool, nm string, got, want uint64) {
					if has {
						if got == want {
							o.Fields = append(o.Fields, nm)
						} else {
							o.Fields = append(o.Fields, nm+"!")
						}
					}
				}
				chk(f.HasTOVOL(), "TOVOL", f.TotalVolume, 11)
				chk(f.HasULVOL(), "ULVOL", f.UplinkVolume, 22)
				chk(f.HasDLVOL(), "DLVOL", f.DownlinkVolume, 33)
				chk(f.HasTONOP(), "TONOP", f.TotalNumberOfPackets, 44)
				chk(f.HasULNOP(), "ULNOP", f.UplinkNumberOfPackets, 55)
				chk(f.HasDLNOP(), "DLNOP", f.DownlinkNumberOfPackets, 66)
			default:
				o.Panic = "unknown function " + v.F
			}
		}()
		if err := enc.Encode(o); err != nil {
			t.Fatalf("INFRA: %v", err)
		}
		n++
	}
	fmt.Printf("VERIF-FLAGS vectors=%d\n", n)
}
