//go:build verif

package factory

// L0 executor for C20 (configuration part): the REAL ReadConfig on YAML documents rendered from the
// abstract fault states TLC enumerates (spec/Config.tla).

import (
	"bufio"
	"encoding/json"
	"fmt"
	"os"
	"path/filepath"
	"testing"

	"github.com/free5gc/go-upf/internal/logger"
)

type vfCfgIn struct {
	ID   string          `json:"id"`
	Yaml string          `json:"yaml"`
	St   json.RawMessage `json:"st"`   // abstract state (field -> class)
	Want json.RawMessage `json:"want"` // concrete values rendered for the ok fields
}

type vfCfgGot struct {
	Version   string   `json:"version"`
	Addr      string   `json:"addr"`
	NodeID    string   `json:"nodeid"`
	RT        string   `json:"rt"`
	MaxRt     int      `json:"maxrt"`
	Forwarder string   `json:"forwarder"`
	IfAddrs   []string `json:"ifaddrs"`
	IfTypes   []string `json:"iftypes"`
	Dnns      []string `json:"dnns"`
	Cidrs     []string `json:"cidrs"`
	Level     string   `json:"level"`
	Extra     []string `json:"extra"`
}

type vfCfgOut struct {
	ID       string          `json:"id"`
	St       json.RawMessage `json:"st"`
	Want     json.RawMessage `json:"want"`
	Accepted bool            `json:"accepted"`
	NilCfg   bool            `json:"nilcfg"` // rejected AND no configuration object returned
	Got      vfCfgGot        `json:"got"`
	Panic    string          `json:"panic"`
}

func TestVerifConfig(t *testing.T) {
	in, out := os.Getenv("VERIF_IN"), os.Getenv("VERIF_OUT")
	if in == "" || out == "" {
		t.Skip("VERIF_IN / VERIF_OUT not set")
	}
	logger.Log.SetLevel(0)
	fi, err := os.Open(in)
	if err != nil {
		t.Fatalf("INFRA: %v", err)
	}
	defer fi.Close()
	fo, err := os.Create(out)
	if err != nil {
		t.Fatalf("INFRA: %v", err)
	}
	defer fo.Close()
	w := bufio.NewWriterSize(fo, 1<<20)
	defer w.Flush()
	enc := json.NewEncoder(w)
	sc := bufio.NewScanner(fi)
	sc.Buffer(make([]byte, 1<<20), 1<<26)
	dir := t.TempDir()
	n := 0
	for sc.Scan() {
		var v vfCfgIn
		if err := json.Unmarshal(sc.Bytes(), &v); err != nil {
			t.Fatalf("INFRA: %v", err)
		}
		o := vfCfgOut{ID: v.ID, St: v.St, Want: v.Want}
		o.Got.IfAddrs, o.Got.IfTypes, o.Got.Dnns, o.Got.Cidrs, o.Got.Extra = []string{}, []string{}, []string{}, []string{}, []string{}
		p := filepath.Join(dir, "c.yaml")
		if err := os.WriteFile(p, []byte(v.Yaml), 0o600); err != nil {
			t.Fatalf("INFRA: %v", err)
		}
		func() {
			defer func() {
				if r := recover(); r != nil {
					o.Panic = fmt.Sprint(r)
				}
			}()
			cfg, err := ReadConfig(p)
			o.Accepted = err == nil && cfg != nil
			o.NilCfg = cfg == nil
			if o.Accepted {
				g := &o.Got
				g.Version = cfg.Version
				g.Extra = append(g.Extra, "desc="+cfg.Description)
				if cfg.Pfcp != nil {
					g.Addr, g.NodeID, g.RT, g.MaxRt = cfg.Pfcp.Addr, cfg.Pfcp.NodeID, cfg.Pfcp.RetransTimeout.String(), int(cfg.Pfcp.MaxRetrans)
				}
				if cfg.Gtpu != nil {
					g.Forwarder = cfg.Gtpu.Forwarder
					for _, i := range cfg.Gtpu.IfList {
						g.IfAddrs = append(g.IfAddrs, i.Addr)
						g.IfTypes = append(g.IfTypes, i.Type)
						g.Extra = append(g.Extra, fmt.Sprintf("if=%s|%s|%d", i.Name, i.IfName, i.MTU))
					}
				}
				for _, d := range cfg.DnnList {
					g.Dnns = append(g.Dnns, d.Dnn)
					g.Cidrs = append(g.Cidrs, d.Cidr)
					g.Extra = append(g.Extra, "nat="+d.NatIfName)
				}
				if cfg.Logger != nil {
					g.Level = cfg.Logger.Level
					tf := map[bool]string{true: "True", false: "False"}
					g.Extra = append(g.Extra, "log="+tf[cfg.Logger.Enable]+"|"+tf[cfg.Logger.ReportCaller])
				}
			}
		}()
		if err := enc.Encode(o); err != nil {
			t.Fatalf("INFRA: %v", err)
		}
		n++
	}
	fmt.Printf("VERIF-CONFIG documents=%d\n", n)
}
