//go:build verif

package simk

import (
	"syscall"
	"unsafe"
)

func unsafeBytes(v syscall.Iovec) []byte {
	if v.Base == nil || v.Len == 0 {
		return nil
	}
	return unsafe.Slice(v.Base, int(v.Len))
}
