//go:build verif

// Package simk is a simulated gtp5g kernel module for the verification harness (NOT part of
// free5gc/go-upf; added to the module by go's -overlay).  It is the executable twin of
// spec/Kernel part of the L2 specifications: it speaks generic netlink over socketpairs
// (nl.Conner), keeps rule tables per (kind, SEID, id), answers GET_*, produces usage reports with
// deterministic "measurements", emits BUFFER / REPORT multicasts and records every request it
// receives, decoded by its own attribute walker (independent of go-gtp5gnl's decoders).
package simk

import (
	"encoding/binary"
	"fmt"
	"sort"
	"sync"
	"syscall"
	"time"
)

// gtp5g generic-netlink commands (numeric values of go-gtp5gnl/cmd.go; shared trusted constants)
const (
	CmdAddPDR          = 1
	CmdAddFAR          = 2
	CmdAddQER          = 3
	CmdDelPDR          = 4
	CmdDelFAR          = 5
	CmdDelQER          = 6
	CmdGetPDR          = 7
	CmdGetFAR          = 8
	CmdGetQER          = 9
	CmdAddURR          = 10
	CmdAddBAR          = 11
	CmdDelURR          = 12
	CmdDelBAR          = 13
	CmdGetURR          = 14
	CmdGetBAR          = 15
	CmdGetVersion      = 16
	CmdGetReport       = 17
	CmdBufferGtpu      = 18
	CmdGetMultiReports = 19
)

const FamilyID = 33

var le = binary.LittleEndian

// Attr is one netlink attribute as seen on the wire.
type Attr struct {
	Type   int
	Nested bool
	Val    []byte
	Kids   []Attr // decoded children when Nested
}

// Walk decodes a netlink attribute stream (independent of go-nl / go-gtp5gnl).
func Walk(b []byte) ([]Attr, error) {
	var out []Attr
	for len(b) > 0 {
		if len(b) < 4 {
			return out, fmt.Errorf("attribute header truncated")
		}
		l := int(le.Uint16(b[0:2]))
		t := int(le.Uint16(b[2:4]))
		if l < 4 || l > len(b) {
			return out, fmt.Errorf("attribute length %d out of range (have %d)", l, len(b))
		}
		a := Attr{Type: t & 0x3fff, Nested: t&0x8000 != 0, Val: append([]byte{}, b[4:l]...)}
		if a.Nested {
			k, err := Walk(a.Val)
			if err != nil {
				return out, err
			}
			a.Kids = k
		}
		out = append(out, a)
		adv := (l + 3) &^ 3
		if adv > len(b) {
			adv = len(b)
		}
		b = b[adv:]
	}
	return out, nil
}

func enc(t int, nested bool, val []byte) []byte {
	l := 4 + len(val)
	b := make([]byte, (l+3)&^3)
	le.PutUint16(b[0:2], uint16(l))
	tt := uint16(t)
	if nested {
		tt |= 0x8000
	}
	le.PutUint16(b[2:4], tt)
	copy(b[4:], val)
	return b
}

func u16(v uint16) []byte { b := make([]byte, 2); le.PutUint16(b, v); return b }
func u32(v uint32) []byte { b := make([]byte, 4); le.PutUint32(b, v); return b }
func u64(v uint64) []byte { b := make([]byte, 8); le.PutUint64(b, v); return b }

// EncodeAttrs re-encodes a decoded attribute list.
func EncodeAttrs(as []Attr) []byte {
	var b []byte
	for _, a := range as {
		if a.Nested {
			b = append(b, enc(a.Type, true, EncodeAttrs(a.Kids))...)
		} else {
			b = append(b, enc(a.Type, false, a.Val)...)
		}
	}
	return b
}

// kind-specific attribute numbers (id is 3 everywhere)
var seidAttr = map[string]int{"pdr": 11, "far": 7, "qer": 13, "urr": 8, "bar": 6}

type Key struct {
	Kind string
	SEID uint64
	ID   uint64
}

type Rule struct {
	Attrs []Attr // top-level attributes as last written (id and seid included, link excluded)
}

func (r *Rule) get(t int) []Attr {
	var out []Attr
	for _, a := range r.Attrs {
		if a.Type == t {
			out = append(out, a)
		}
	}
	return out
}

// Req is one request as the kernel received it.
type Req struct {
	N     int    // ordinal
	Conn  string // "main" | "ps"
	Cmd   int
	Op    string // create update remove get query mquery version
	Kind  string
	SEID  uint64
	ID    uint64
	Flags int
	Link  int
	Attrs []Attr // all attributes of the request (link, id, seid and rule attributes)
	Errno int    // reply
	Reps  []Report
	OIDs  [][2]uint64 // mquery
}

// Report is one usage report produced by the kernel.
type Report struct {
	SEID  uint64
	URR   uint32
	Trig  uint32 // reporting-trigger cause (multicast) / usage-report-trigger flags (update, remove)
	Tok   int
	Vol   [6]uint64 // total, uplink, downlink volume; total, uplink, downlink packets
	Start int64     // ns
	End   int64
}

type Kernel struct {
	mu      sync.Mutex
	rules   map[Key]*Rule
	log     []Req
	nreq    int
	tok     int
	Version string
	// MaxReports is the number of usage reports that fit into one reply; a GET_MULTI_REPORTS asking for
	// more is refused (the real module would truncate / fail)
	MaxReports int
	// Latency, when set, is slept before a request is answered
	Latency func(r *Req) time.Duration
	// Fail, when set, may turn a request into an error reply (errno > 0) before it takes effect
	Fail func(r *Req) int
	// Hook is called (kernel goroutine) after a request was processed
	Hook     func(r *Req)
	mcast    *Conn
	inflight int
	nemit    int
	idle     *sync.Cond
}

func New() *Kernel {
	k := &Kernel{rules: map[Key]*Rule{}, Version: "0.9.5", MaxReports: 56}
	k.idle = sync.NewCond(&k.mu)
	return k
}

// ---------------------------------------------------------------- connections

// Conn implements nl.Conner over one end of a socketpair; the kernel serves the other end.
type Conn struct {
	fd, kfd int
	seq     int
	name    string
	closed  bool
	served  chan struct{} // closed when the kernel goroutine serving the connection has returned
	mu      sync.Mutex
}

func (c *Conn) Fd() int { return c.fd }
func (c *Conn) Close() {
	c.mu.Lock()
	defer c.mu.Unlock()
	if !c.closed {
		c.closed = true
		// wake the kernel goroutine serving this connection and wait until it is gone BEFORE the descriptors are
		// released: a goroutine that is between two reads when the number is re-used by the next connection would
		// otherwise steal that connection's requests (and answer them from a stale rule table)
		syscall.Shutdown(c.kfd, syscall.SHUT_RDWR)
		if c.served != nil {
			<-c.served
		}
		syscall.Close(c.fd)
		syscall.Close(c.kfd)
	}
}
func (c *Conn) Read(b []byte) (int, error)  { return syscall.Read(c.fd, b) }
func (c *Conn) Write(b []byte) (int, error) { return syscall.Write(c.fd, b) }
func (c *Conn) Writev(iovs []syscall.Iovec) (int, error) {
	var buf []byte
	for _, v := range iovs {
		buf = append(buf, unsafeBytes(v)...)
	}
	return syscall.Write(c.fd, buf)
}
func (c *Conn) TakeSeq() int { c.seq++; return c.seq }

func pair() (int, int, error) {
	fds, err := syscall.Socketpair(syscall.AF_UNIX, syscall.SOCK_DGRAM|syscall.SOCK_CLOEXEC, 0)
	if err != nil {
		return 0, 0, err
	}
	for _, fd := range fds {
		_ = syscall.SetsockoptInt(fd, syscall.SOL_SOCKET, syscall.SO_SNDBUF, 4<<20)
		_ = syscall.SetsockoptInt(fd, syscall.SOL_SOCKET, syscall.SO_RCVBUF, 4<<20)
	}
	return fds[0], fds[1], nil
}

// NewConn returns a request connection served by the kernel.
func (k *Kernel) NewConn(name string) (*Conn, error) {
	a, b, err := pair()
	if err != nil {
		return nil, err
	}
	c := &Conn{fd: a, kfd: b, name: name, served: make(chan struct{})}
	go k.serve(c)
	return c, nil
}

// NewMcastConn returns the connection on which the kernel emits BUFFER / REPORT notifications.
func (k *Kernel) NewMcastConn() (*Conn, error) {
	a, b, err := pair()
	if err != nil {
		return nil, err
	}
	c := &Conn{fd: a, kfd: b, name: "mcast"}
	k.mu.Lock()
	k.mcast = c
	k.mu.Unlock()
	return c, nil
}

func (k *Kernel) serve(c *Conn) {
	defer close(c.served)
	buf := make([]byte, 1<<16)
	for {
		n, err := syscall.Read(c.kfd, buf)
		if err != nil {
			if err == syscall.EINTR {
				continue
			}
			return
		}
		if n == 0 {
			return
		}
		k.mu.Lock()
		k.inflight++
		k.mu.Unlock()
		rsp := k.handle(c, append([]byte{}, buf[:n]...))
		if len(rsp) > 0 {
			_, _ = syscall.Write(c.kfd, rsp)
		}
		k.mu.Lock()
		k.inflight--
		k.idle.Broadcast()
		k.mu.Unlock()
	}
}

// ---------------------------------------------------------------- request handling

func nlmsg(typ uint16, flags uint16, seq uint32, body []byte) []byte {
	b := make([]byte, 16+len(body))
	le.PutUint32(b[0:4], uint32(len(b)))
	le.PutUint16(b[4:6], typ)
	le.PutUint16(b[6:8], flags)
	le.PutUint32(b[8:12], seq)
	le.PutUint32(b[12:16], 4242) // pid != 0
	copy(b[16:], body)
	return pad4(b)
}

func pad4(b []byte) []byte {
	for len(b)%4 != 0 {
		b = append(b, 0)
	}
	return b
}

func ack(seq uint32, errno int) []byte {
	body := make([]byte, 20)
	le.PutUint32(body[0:4], uint32(int32(-errno)))
	return nlmsg(syscall.NLMSG_ERROR, 0, seq, body)
}

func data(seq uint32, cmd int, attrs []byte) []byte {
	body := append([]byte{byte(cmd), 0, 0, 0}, attrs...)
	return nlmsg(FamilyID, 0, seq, body)
}

func cmdKind(cmd int) (string, string) {
	switch cmd {
	case CmdAddPDR:
		return "add", "pdr"
	case CmdAddFAR:
		return "add", "far"
	case CmdAddQER:
		return "add", "qer"
	case CmdAddURR:
		return "add", "urr"
	case CmdAddBAR:
		return "add", "bar"
	case CmdDelPDR:
		return "remove", "pdr"
	case CmdDelFAR:
		return "remove", "far"
	case CmdDelQER:
		return "remove", "qer"
	case CmdDelURR:
		return "remove", "urr"
	case CmdDelBAR:
		return "remove", "bar"
	case CmdGetPDR:
		return "get", "pdr"
	case CmdGetFAR:
		return "get", "far"
	case CmdGetQER:
		return "get", "qer"
	case CmdGetURR:
		return "get", "urr"
	case CmdGetBAR:
		return "get", "bar"
	case CmdGetVersion:
		return "version", ""
	case CmdGetReport:
		return "query", "urr"
	case CmdGetMultiReports:
		return "mquery", "urr"
	}
	return "?", ""
}

func num(b []byte) uint64 {
	var v uint64
	for i := 0; i < len(b) && i < 8; i++ {
		v |= uint64(b[i]) << (8 * i)
	}
	return v
}

func (k *Kernel) handle(c *Conn, msg []byte) []byte {
	if len(msg) < 20 {
		return nil
	}
	flags := int(le.Uint16(msg[6:8]))
	seq := le.Uint32(msg[8:12])
	cmd := int(msg[16])
	attrs, werr := Walk(msg[20:])
	r := Req{Conn: c.name, Cmd: cmd, Flags: flags, Attrs: attrs}
	op, kind := cmdKind(cmd)
	r.Kind = kind
	if op == "add" {
		if flags&syscall.NLM_F_REPLACE != 0 {
			op = "update"
		} else {
			op = "create"
		}
	}
	r.Op = op
	for _, a := range attrs {
		switch {
		case a.Type == 1:
			r.Link = int(num(a.Val))
		case a.Type == 3 && kind != "" && op != "mquery":
			r.ID = num(a.Val)
		case kind != "" && a.Type == seidAttr[kind] && op != "mquery":
			r.SEID = num(a.Val)
		}
	}
	k.mu.Lock()
	k.nreq++
	r.N = k.nreq
	lat, fail := k.Latency, k.Fail
	k.mu.Unlock()
	if lat != nil {
		if d := lat(&r); d > 0 {
			time.Sleep(d)
		}
	}
	var out []byte
	k.mu.Lock()
	switch {
	case werr != nil:
		r.Errno = int(syscall.EINVAL)
	case fail != nil && func() bool { r.Errno = fail(&r); return r.Errno != 0 }():
	default:
		out = k.apply(&r, seq)
	}
	k.log = append(k.log, r)
	hook := k.Hook
	k.mu.Unlock()
	if hook != nil {
		hook(&r)
	}
	return append(out, ack(seq, r.Errno)...)
}

// apply executes the request on the tables (k.mu held); returns data messages
func (k *Kernel) apply(r *Req, seq uint32) []byte {
	key := Key{r.Kind, r.SEID, r.ID}
	rule, exists := k.rules[key]
	ruleAttrs := func() []Attr {
		var as []Attr
		for _, a := range r.Attrs {
			if a.Type != 1 {
				as = append(as, a)
			}
		}
		return as
	}
	switch r.Op {
	case "version":
		return data(seq, r.Cmd, enc(1, false, append([]byte(k.Version), 0)))
	case "create":
		if exists {
			r.Errno = int(syscall.EEXIST)
			return nil
		}
		k.rules[key] = &Rule{Attrs: ruleAttrs()}
	case "update":
		if !exists {
			r.Errno = int(syscall.ENOENT)
			return nil
		}
		// replace semantics: every attribute type present in the request replaces the stored ones
		seen := map[int]bool{}
		for _, a := range ruleAttrs() {
			seen[a.Type] = true
		}
		var keep []Attr
		for _, a := range rule.Attrs {
			if !seen[a.Type] {
				keep = append(keep, a)
			}
		}
		rule.Attrs = append(keep, ruleAttrs()...)
	case "remove":
		if !exists {
			r.Errno = int(syscall.ENOENT)
			return nil
		}
		delete(k.rules, key)
		if r.Kind == "urr" {
			rep := k.measure(r.SEID, uint32(r.ID), 0)
			r.Reps = []Report{rep}
			return data(seq, r.Cmd, encReports(r.Reps))
		}
	case "get":
		if !exists {
			r.Errno = int(syscall.ENOENT)
			return nil
		}
		as := append([]Attr{}, rule.Attrs...)
		if r.Kind == "far" || r.Kind == "qer" {
			// related PDRs (FAR_RELATED_TO_PDR = 6, QER_RELATED_TO_PDR = 12): u16 list
			var ids []int
			for kk, pr := range k.rules {
				if kk.Kind != "pdr" || kk.SEID != r.SEID {
					continue
				}
				t := 7 // PDR_FAR_ID
				if r.Kind == "qer" {
					t = 10 // PDR_QER_ID
				}
				for _, a := range pr.get(t) {
					if num(a.Val) == r.ID {
						ids = append(ids, int(kk.ID))
						break
					}
				}
			}
			sort.Ints(ids)
			var v []byte
			for _, id := range ids {
				v = append(v, u16(uint16(id))...)
			}
			if len(v) > 0 {
				t := 6
				if r.Kind == "qer" {
					t = 12
				}
				as = append(as, Attr{Type: t, Val: v})
			}
		}
		return data(seq, r.Cmd, EncodeAttrs(as))
	case "query":
		if !exists {
			r.Errno = int(syscall.ENOENT)
			return nil
		}
		rep := k.measure(r.SEID, uint32(r.ID), 0)
		r.Reps = []Report{rep}
		return data(seq, r.Cmd, encReports(r.Reps))
	case "mquery":
		for _, a := range r.Attrs {
			if a.Type == 11 && a.Nested { // URR_MULTI_SEID_URRID
				var id, seid uint64
				for _, c := range a.Kids {
					if c.Type == 3 {
						id = num(c.Val)
					}
					if c.Type == 8 {
						seid = num(c.Val)
					}
				}
				r.OIDs = append(r.OIDs, [2]uint64{seid, id})
			}
		}
		if len(r.OIDs) > k.MaxReports {
			r.Errno = int(syscall.EMSGSIZE)
			return nil
		}
		for _, o := range r.OIDs {
			if _, ok := k.rules[Key{"urr", o[0], o[1]}]; ok {
				r.Reps = append(r.Reps, k.measure(o[0], uint32(o[1]), 0))
			}
		}
		if len(r.Reps) == 0 {
			return nil
		}
		return data(seq, r.Cmd, encReports(r.Reps))
	default:
		r.Errno = int(syscall.EOPNOTSUPP)
	}
	return nil
}

// Measure is the deterministic measurement for token k (values spread over 64 bits)
func Measure(tok int) ([6]uint64, int64, int64) {
	u := uint64(tok)
	v := [6]uint64{
		0x8000000000000000 | u*0x0001000100010001,
		0x4000000000000000 | u*0x0000000100000001 + 1,
		0x2000000000000000 | u*0x0000010000000100 + 2,
		0x1000000000000000 | u*3 + 3,
		0x0800000000000000 | u*5 + 4,
		0xffffffffffffffff - u*7,
	}
	t0 := time.Date(2024, 1, 1, 0, 0, 0, 0, time.UTC).UnixNano()
	return v, t0 + int64(2*tok)*int64(time.Second), t0 + int64(2*tok+1)*int64(time.Second)
}

func (k *Kernel) measure(seid uint64, urr uint32, trig uint32) Report {
	k.tok++
	v, s, e := Measure(k.tok)
	return Report{SEID: seid, URR: urr, Trig: trig, Tok: k.tok, Vol: v, Start: s, End: e}
}

func encReports(rs []Report) []byte {
	var b []byte
	for _, r := range rs {
		var vm []byte
		for i, v := range r.Vol {
			vm = append(vm, enc(2+i, false, u64(v))...)
		}
		var u []byte
		u = append(u, enc(3, false, u32(r.URR))...)
		u = append(u, enc(4, false, u32(r.Trig))...)
		u = append(u, enc(5, false, u32(0))...)
		u = append(u, enc(6, true, vm)...)
		u = append(u, enc(8, false, u64(uint64(r.Start)))...)
		u = append(u, enc(9, false, u64(uint64(r.End)))...)
		u = append(u, enc(10, false, u64(r.SEID))...)
		b = append(b, enc(5, true, u)...)
	}
	return b
}

// ---------------------------------------------------------------- multicasts, inspection

// EmitReports sends one REPORT multicast carrying a usage report per (seid, urr, cause).
func (k *Kernel) EmitReports(items [][3]uint64) ([]Report, error) {
	k.mu.Lock()
	var rs []Report
	for _, it := range items {
		rs = append(rs, k.measure(it[0], uint32(it[1]), uint32(it[2])))
	}
	mc := k.mcast
	k.mu.Unlock()
	if mc == nil {
		return nil, fmt.Errorf("no multicast connection")
	}
	body := enc(2, true, encReports(rs))
	_, err := syscall.Write(mc.kfd, data(0, CmdBufferGtpu, body))
	return rs, err
}

// EmitBuffer sends one BUFFER multicast (a packet handed up for buffering).
func (k *Kernel) EmitBuffer(seid uint64, pdr uint16, action uint16, pkt []byte) error {
	k.mu.Lock()
	mc := k.mcast
	k.mu.Unlock()
	if mc == nil {
		return fmt.Errorf("no multicast connection")
	}
	// the attributes of one notification in varying order: a decoder must not rely on the position of any of them
	parts := [][]byte{enc(5, false, u16(pdr)), enc(7, false, u16(action)), enc(6, false, u64(seid))}
	if pkt != nil {
		parts = append(parts, enc(4, false, pkt))
	}
	k.mu.Lock()
	k.nemit++
	rot := k.nemit
	k.mu.Unlock()
	if seid >= 0x7fffffffffff0000 {
		rot = 0 // the harness's own marker notifications keep the module's order (packet last): they are not test input
	}
	var b []byte
	for i := range parts {
		j := (i + rot) % len(parts)
		if rot%2 == 1 {
			j = len(parts) - 1 - j
		}
		b = append(b, parts[j]...)
	}
	_, err := syscall.Write(mc.kfd, data(0, CmdBufferGtpu, enc(1, true, b)))
	return err
}

// EmitRaw sends arbitrary bytes as the attribute part of a multicast.
func (k *Kernel) EmitRaw(attrs []byte) error {
	k.mu.Lock()
	mc := k.mcast
	k.mu.Unlock()
	if mc == nil {
		return fmt.Errorf("no multicast connection")
	}
	_, err := syscall.Write(mc.kfd, data(0, CmdBufferGtpu, attrs))
	return err
}

// TakeLog returns and clears the request log.
func (k *Kernel) TakeLog() []Req {
	k.mu.Lock()
	defer k.mu.Unlock()
	l := k.log
	k.log = nil
	return l
}

// WaitIdle waits until no request is being processed.
func (k *Kernel) WaitIdle() {
	k.mu.Lock()
	for k.inflight > 0 {
		k.idle.Wait()
	}
	k.mu.Unlock()
}

// Rules returns the keys of all installed rules.
func (k *Kernel) Rules() []Key {
	k.mu.Lock()
	defer k.mu.Unlock()
	var ks []Key
	for kk := range k.rules {
		ks = append(ks, kk)
	}
	sort.Slice(ks, func(i, j int) bool {
		a, b := ks[i], ks[j]
		if a.SEID != b.SEID {
			return a.SEID < b.SEID
		}
		if a.Kind != b.Kind {
			return a.Kind < b.Kind
		}
		return a.ID < b.ID
	})
	return ks
}

// Rule returns the stored attributes of a rule.
func (k *Kernel) Rule(key Key) ([]Attr, bool) {
	k.mu.Lock()
	defer k.mu.Unlock()
	r, ok := k.rules[key]
	if !ok {
		return nil, false
	}
	return append([]Attr{}, r.Attrs...), true
}

// SetLocked runs f with the kernel lock held (to change knobs atomically).
func (k *Kernel) SetLocked(f func()) {
	k.mu.Lock()
	defer k.mu.Unlock()
	f()
}
