//go:build verif

package perio

import "time"

// VerifTick injects the event a period's ticker posts when it fires (verification only).
func (s *Server) VerifTick(period time.Duration) {
	s.evtCh <- Event{eType: TYPE_PERIO_TIMEOUT, period: period}
}

// VerifQueueLen is the number of events waiting for the server goroutine.
func (s *Server) VerifQueueLen() int { return len(s.evtCh) }

// VerifSync returns after every event posted before it has been processed.
func (s *Server) VerifSync() {
	for len(s.evtCh) > 0 {
		time.Sleep(50 * time.Microsecond)
	}
}
