//go:build verif

package gtpv1

// L0 executor for C14: evaluates the REAL G-PDU encoder on test vectors produced by TLC
// (spec/GtpuEnc.tla) or by the seeded generator, and records the encoded bytes.

import (
	"bufio"
	"encoding/hex"
	"encoding/json"
	"fmt"
	"os"
	"testing"
)

type vfGtpuIn struct {
	ID    string `json:"id"`
	Teid  []int  `json:"teid"` // 4 octets, network order
	Ext   bool   `json:"ext"`
	PType int    `json:"ptype"`
	QFI   int    `json:"qfi"`
	PLen  int    `json:"plen"`
	PSeed int    `json:"pseed"`
}

type vfGtpuOut struct {
	vfGtpuIn
	PHex  string `json:"phex"`
	Hex   string `json:"hex"`
	Ret   int    `json:"ret"`
	Len   int    `json:"len"`
	Panic string `json:"panic"`
}

func vfPayload(n, seed int) []byte {
	p := make([]byte, n)
	x := uint32(seed)*2654435761 + 12345
	for i := range p {
		x = x*1664525 + 1013904223
		p[i] = byte(x >> 24)
	}
	return p
}

func TestVerifGtpu(t *testing.T) {
	in, out := os.Getenv("VERIF_IN"), os.Getenv("VERIF_OUT")
	if in == "" || out == "" {
		t.Skip("VERIF_IN / VERIF_OUT not set")
	}
	fi, err := os.Open(in)
	if err != nil {
		t.Fatalf("INFRA: %v", err)
	}
	defer fi.Close()
	fo, err := os.Create(out)
	if err != nil {
		t.Fatalf("INFRA: %v", err)
	}
	defer fo.Close()
	w := bufio.NewWriterSize(fo, 1<<20)
	defer w.Flush()
	enc := json.NewEncoder(w)
	sc := bufio.NewScanner(fi)
	sc.Buffer(make([]byte, 1<<20), 1<<26)
	n := 0
	for sc.Scan() {
		var v vfGtpuIn
		if err := json.Unmarshal(sc.Bytes(), &v); err != nil {
			t.Fatalf("INFRA: %v", err)
		}
		o := vfGtpuOut{vfGtpuIn: v}
		pl := vfPayload(v.PLen, v.PSeed)
		o.PHex = hex.EncodeToString(pl)
		func() {
			defer func() {
				if p := recover(); p != nil {
					o.Panic = fmt.Sprint(p)
				}
			}()
			m := Message{
				Flags:   0x34,
				Type:    MsgTypeTPDU,
				TEID:    uint32(v.Teid[0])<<24 | uint32(v.Teid[1])<<16 | uint32(v.Teid[2])<<8 | uint32(v.Teid[3]),
				Payload: pl,
			}
			if v.Ext {
				m.Exts = []Encoder{PDUSessionContainer{PDUType: uint8(v.PType), QoSFlowID: uint8(v.QFI)}}
			}
			o.Len = m.Len()
			b := make([]byte, o.Len)
			r, err := m.Encode(b)
			if err != nil {
				o.Panic = "error: " + err.Error()
			}
			o.Ret = r
			o.Hex = hex.EncodeToString(b)
		}()
		if err := enc.Encode(o); err != nil {
			t.Fatalf("INFRA: %v", err)
		}
		n++
	}
	fmt.Printf("VERIF-GTPU vectors=%d\n", n)
}
